#![no_main]
//! Coverage-guided driver for the generated checks: the fuzzer's bytes are the random stream of the
//! same proptest strategies (RngAlgorithm::PassThrough), the same oracles run inside the target.
//! VERIF_FUZZ_PROP selects the property (default C08); data[0] selects the sub-check.
use libfuzzer_sys::fuzz_target;

fuzz_target!(|data: &[u8]| {
    vh::fuzz::one(data);
});
