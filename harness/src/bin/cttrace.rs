fn main(){}
