//! C07 -- constant-time signature comparison, decided on instruction-address traces.
//!
//! cttrace C07 [--tier quick|thorough] [--replay FILE]
//!
//! The process defines its own byte-wise, early-exit memcmp/bcmp (so that a `==` on byte strings is
//! position dependent whatever the C library's vector width), warms every code path up, and then
//! forks tracer processes; each tracer forks one tracee per variant and single-steps the complete
//! `sigv4_validate_request` call with ptrace, folding every instruction address into a hash.
//! All tracees are forks of one warmed-up image (same address-space layout, same allocator state,
//! same hash-map seeds), so for a fixed request and key the traces of two wrong signatures can
//! differ only if control flow depends on *where* the signature is wrong.

use proptest::strategy::{Strategy, ValueTree};
use proptest::test_runner::{Config, RngSeed, TestRunner};
use serde_json::json;
use std::io::Read;
use vh::engine::{mix, CaseCtx, Ctx, Failure, Tier};
use vh::gen::{plan, quiet_opts, Plan};
use vh::model::verify::{analyze, Verdict, R_SIGNATURE};
use vh::props::c01::replace_signature;
use vh::types::*;
use vh::{exec, model};

#[no_mangle]
pub unsafe extern "C" fn memcmp(a: *const u8, b: *const u8, n: usize) -> i32 {
    let mut i = 0;
    while i < n {
        let x = std::ptr::read_volatile(a.add(i));
        let y = std::ptr::read_volatile(b.add(i));
        if x != y {
            return x as i32 - y as i32;
        }
        i += 1;
    }
    0
}

#[no_mangle]
pub unsafe extern "C" fn bcmp(a: *const u8, b: *const u8, n: usize) -> i32 {
    let mut i = 0;
    while i < n {
        let x = std::ptr::read_volatile(a.add(i));
        let y = std::ptr::read_volatile(b.add(i));
        if x != y {
            return 1;
        }
        i += 1;
    }
    0
}

const RULE: &str = "generated: (request, key) pairs from the completeness generator (small requests, both carriers, with and without a session token; every second one drawn until its correct signature has a given shape: leading '00', leading '000', trailing '00', leading 'ff'/'0'); for each, the expected signature (reference model) with ONE character at position p replaced by another of the same class (digit->digit, letter->letter), 'everything from p on wrong' variants, a different replacement character at p, and two-character variants that keep every order-independent digest of the string unchanged (successor at p / predecessor at another place: same byte sum; two unequal characters of one class exchanged: same multiset), and the one-character variants again in upper-case hex (compared among themselves). Observed: the instruction-address trace (rolling hash + step count) of the complete sigv4_validate_request call in a forked child single-stepped with ptrace, under a harness-supplied byte-wise early-exit memcmp/bcmp. The traced refusal is the N-th refusal of its process for a round N per request (10000, 1000, 4096, 100, ...; the preceding ones run untraced in the same process). Every second request is validated with a TRACE-level logger that renders every record, so the formatting code behind the library's trace!/debug! calls is part of the trace. Oracle (metamorphic): for a fixed request and key the trace is identical for every p; the first variant is traced twice and a difference there makes the run inconclusive, never a violation. Non-trivial: a variant that the crate refuses with the signature-mismatch error (it reached the comparison) and whose trace was recorded; distinct by (request digest, position, kind of variant).";

#[derive(Clone, Copy, Default)]
struct TraceResult {
    hash: u64,
    steps: u64,
    ok: bool,
}

fn wrong_char(c: u8) -> u8 {
    match c {
        b'0'..=b'8' => c + 1,
        b'9' => b'0',
        b'a'..=b'e' => c + 1,
        b'f' => b'a',
        other => other,
    }
}

const ONE: u8 = 0;
const TAIL: u8 = 1;
/// successor at p, predecessor somewhere else: the byte sum (and any other additive checksum) is that of the right signature
const BALANCED: u8 = 2;
/// two unequal characters exchanged: the multiset of characters is that of the right signature
const EXCHANGED: u8 = 3;
/// another replacement character at p than ONE uses
const OTHER: u8 = 4;
/// ONE, presented in upper-case hex (what a lenient comparison would fold before comparing again). Upper-case letters may
/// legitimately take other branches on the way in, so these variants are compared with one another, not with the others.
const UPPER: u8 = 5;

fn mode_name(m: u8) -> &'static str {
    match m {
        ONE => "one-char-wrong",
        TAIL => "tail-wrong",
        BALANCED => "two-wrong-same-byte-sum",
        EXCHANGED => "two-exchanged",
        UPPER => "one-char-wrong-upper-case-hex",
        _ => "one-char-wrong-other-replacement",
    }
}

fn up_ok(c: u8) -> bool {
    matches!(c, b'0'..=b'8' | b'a'..=b'e')
}
fn down_ok(c: u8) -> bool {
    matches!(c, b'1'..=b'9' | b'b'..=b'f')
}

/// the signature with position p (and, for TAIL, everything after it; for the two-character kinds a partner position) made wrong
fn variant_sig(sig: &str, p: usize, mode: u8) -> String {
    let mut b = sig.as_bytes().to_vec();
    let n = b.len();
    match mode {
        BALANCED => {
            // first position >= p that can go up, first other position (cyclically after it) that can go down
            if let Some(i) = (0..n).map(|k| (p + k) % n).find(|i| up_ok(b[*i])) {
                if let Some(j) = (1..n).map(|k| (i + 7 + k) % n).find(|j| *j != i && down_ok(b[*j])) {
                    b[i] += 1;
                    b[j] -= 1;
                }
            }
        }
        EXCHANGED => {
            let i = p % n;
            // (same class only: what the crate does with the PRESENTED characters -- percent-decoding, say -- may
            // legitimately differ between a digit and a letter; the comparison with the expected value may not)
            if let Some(j) = (1..n).map(|k| (i + 11 + k) % n).find(|j| b[*j] != b[i] && b[*j].is_ascii_digit() == b[i].is_ascii_digit()) {
                b.swap(i, j);
            }
        }
        OTHER => {
            b[p] = wrong_char(wrong_char(wrong_char(b[p])));
        }
        UPPER => {
            b[p] = wrong_char(b[p]);
            b.make_ascii_uppercase();
        }
        _ => {
            for i in p..n {
                if i == p || mode == TAIL {
                    b[i] = wrong_char(b[i]);
                }
            }
        }
    }
    String::from_utf8(b).unwrap()
}

struct Target {
    case: Case,
    sig: String,
    /// validate with a TRACE-level logger that renders every record (the formatting code of trace!/debug! runs)
    logged: bool,
    /// refused validations the tracee performs (untraced) before the traced one, so that the traced refusal is the
    /// N-th of its process for a round N (sampled / rate-limited reporting paths)
    warm: u32,
}

/// Trace one validation in a forked child. Uses no heap in the parent.
unsafe fn trace_one(t: &Target, p: usize, tail: u8, max_steps: u64, block_step: bool) -> TraceResult {
    let pid = libc::fork();
    if pid < 0 {
        return TraceResult::default();
    }
    if pid == 0 {
        // ---- tracee
        libc::ptrace(libc::PTRACE_TRACEME, 0, 0, 0);
        let mut case = t.case.clone();
        let ns = variant_sig(&t.sig, p, tail);
        if !replace_signature(&mut case.req, &t.sig, &ns) {
            libc::_exit(3);
        }
        let http_req = match exec::build_http(&case.req) {
            Ok(r) => r,
            Err(_) => libc::_exit(4),
        };
        let mut prov = exec::Prov::new(case.prov.clone());
        let now = exec::to_datetime(case.cfg.now).unwrap();
        let opts = scratchstack_aws_signature::SignatureOptions { s3: case.cfg.s3, url_encode_form: case.cfg.fold };
        if t.warm > 0 {
            let mut wc = t.case.clone();
            let _ = replace_signature(&mut wc.req, &t.sig, &variant_sig(&t.sig, 5, ONE));
            for _ in 0..t.warm {
                let _ = exec::run(&wc);
            }
        }
        exec::set_log_buffer(t.logged);
        libc::raise(libc::SIGSTOP);
        let (r, _) = exec::block_on(
            scratchstack_aws_signature::sigv4_validate_request(http_req, &case.cfg.region, &case.cfg.service, &mut prov, now, &scratchstack_aws_signature::NO_ADDITIONAL_SIGNED_HEADERS, opts),
            1000,
        );
        libc::raise(libc::SIGSTOP);
        // exit code tells the tracer what happened: 10 = refused with SignatureDoesNotMatch, 11 = accepted, 12 = other
        let code = match r {
            Some(Err(e)) => match e.downcast_ref::<scratchstack_aws_signature::SignatureError>() {
                Some(scratchstack_aws_signature::SignatureError::SignatureDoesNotMatch(_)) => 10,
                _ => 12,
            },
            Some(Ok(_)) => 11,
            None => 13,
        };
        libc::_exit(code);
    }
    // ---- tracer
    let mut status: libc::c_int = 0;
    if libc::waitpid(pid, &mut status, 0) < 0 || !libc::WIFSTOPPED(status) {
        return TraceResult::default();
    }
    let mut hash: u64 = 0xcbf29ce484222325;
    let mut steps: u64 = 0;
    let mut regs: libc::user_regs_struct = std::mem::zeroed();
    let mut reached_end = false;
    loop {
        let req = if block_step { 33 } else { libc::PTRACE_SINGLESTEP };
        if libc::ptrace(req, pid, 0, 0) < 0 {
            break;
        }
        if libc::waitpid(pid, &mut status, 0) < 0 {
            break;
        }
        if libc::WIFEXITED(status) || libc::WIFSIGNALED(status) {
            return TraceResult::default();
        }
        if libc::WIFSTOPPED(status) {
            let sig = libc::WSTOPSIG(status);
            if sig == libc::SIGSTOP {
                reached_end = true;
                break;
            }
            if sig != libc::SIGTRAP {
                // deliver nothing; unexpected signal
                break;
            }
        }
        if libc::ptrace(libc::PTRACE_GETREGS, pid, 0, &mut regs as *mut _ as *mut libc::c_void) < 0 {
            break;
        }
        hash = (hash ^ regs.rip).wrapping_mul(0x100000001b3);
        steps += 1;
        if steps > max_steps {
            break;
        }
    }
    let mut ok = false;
    if reached_end {
        // let it run to its exit to learn the verdict
        libc::ptrace(libc::PTRACE_CONT, pid, 0, 0);
        if libc::waitpid(pid, &mut status, 0) >= 0 && libc::WIFEXITED(status) {
            ok = libc::WEXITSTATUS(status) == 10;
        }
    } else {
        libc::kill(pid, libc::SIGKILL);
        libc::waitpid(pid, &mut status, 0);
    }
    TraceResult { hash, steps, ok: ok && reached_end }
}

fn targets(seed: u64, n: usize) -> Vec<(Plan, Target)> {
    let mut runner = TestRunner::new(Config { rng_seed: RngSeed::Fixed(mix(seed, "c07-targets", 0)), failure_persistence: None, ..Config::default() });
    let st = plan(quiet_opts());
    let mut out: Vec<(Plan, Target)> = Vec::new();
    let mut guard = 0;
    while out.len() < n && guard < 400_000 {
        guard += 1;
        let p = st.new_tree(&mut runner).unwrap().current();
        // alternate carriers
        let want_query = out.len() % 2 == 1;
        if (p.spec.carrier == vh::model::verify::Carrier::Query) != want_query {
            continue;
        }
        let Ok(b) = p.build() else { continue };
        let a = analyze(&b.case);
        if !a.verdict().is_accept() {
            continue;
        }
        // some requests are chosen for the SHAPE of their correct signature (a property of request and key, not of the
        // guess): leading / trailing zero bytes, where anything that trims, parses or re-encodes the value behaves differently
        let sig = b.signed.signature.as_str();
        let shape_ok = match out.len() % 8 {
            1 => sig.starts_with("00"),
            3 => sig.starts_with("000") || sig.starts_with("0000"),
            5 => sig.ends_with("00"),
            7 => sig.starts_with("ff") || sig.starts_with("0"),
            _ => true,
        };
        if !shape_ok {
            continue;
        }
        // (kilobyte-long tokens only make every trace longer)
        if p.spec.token.as_ref().map(|t| t.len() > 80).unwrap_or(false) {
            continue;
        }
        // requests with and without a session token alternate (temporary credentials take other paths around the lookup)
        if (out.len() % 4 == 0) != p.spec.token.is_some() && out.len() % 2 == 0 {
            continue;
        }
        // the crate must accept the correct signature, otherwise wrong ones do not reach the comparison meaningfully
        if !exec::run(&b.case).res.is_ok() {
            continue;
        }
        // every second request is validated with trace logging switched on
        let logged = out.len() % 2 == 1;
        out.push((p, Target { case: b.case.clone(), sig: b.signed.signature.clone(), logged, warm: 0 }));
    }
    out
}

fn main() {
    let args: Vec<String> = std::env::args().collect();
    let mut tier = match std::env::var("VERIF_TIER").as_deref() {
        Ok("thorough") => Tier::Thorough,
        _ => Tier::Quick,
    };
    let mut replay: Option<String> = None;
    let mut i = 2;
    while i < args.len() {
        match args[i].as_str() {
            "--tier" => {
                i += 1;
                tier = if args.get(i).map(|s| s.as_str()) == Some("thorough") { Tier::Thorough } else { Tier::Quick };
            }
            "--replay" => {
                i += 1;
                replay = args.get(i).cloned();
            }
            _ => {}
        }
        i += 1;
    }
    let seed: u64 = std::env::var("VERIF_SEED").ok().and_then(|s| s.parse::<i64>().ok()).map(|v| v as u64).unwrap_or(0);
    if let Err(e) = model::crypto::self_test().and_then(|_| model::time::self_test()).and_then(|_| model::selftest::self_test().map(|_| ())) {
        eprintln!("INCONCLUSIVE: {}", e);
        std::process::exit(2);
    }
    exec::install_quiet_panic_hook();
    let ctx = Ctx::new("C07", tier, seed, false);
    ctx.set_rule(RULE);
    ctx.assume("control-flow independence is decided on instruction-address traces of this build on this CPU; data-dependent instruction latency and caches are out of scope");
    ctx.assume("the harness-supplied byte-wise memcmp/bcmp replaces the C library's for the whole process");
    for a in vh::props::COMMON_ASSUMPTIONS {
        ctx.assume(a);
    }

    // ---- what to trace
    let (tg, positions, tails, pairs): (Vec<(Plan, Target)>, Vec<usize>, Vec<usize>, Vec<usize>) = if let Some(file) = &replay {
        let text = std::fs::read_to_string(file).unwrap_or_default();
        let v: serde_json::Value = serde_json::from_str(&text).unwrap_or(serde_json::Value::Null);
        let p: Plan = match serde_json::from_value(v["case"]["plan"].clone()) {
            Ok(p) => p,
            Err(e) => {
                eprintln!("cannot decode replay file: {}", e);
                std::process::exit(2);
            }
        };
        let b = p.build().expect("replay plan builds");
        let logged = v["case"]["logged"].as_bool().unwrap_or(false);
        (vec![(p, Target { case: b.case.clone(), sig: b.signed.signature.clone(), logged, warm: 0 })], (0..64).collect(), vec![0, 32], (0..64).step_by(4).collect())
    } else {
        let n = tier.pick(2, 8) as usize;
        let pos: Vec<usize> = if tier == Tier::Thorough { (0..64).collect() } else { (0..64).step_by(4).chain([1usize, 2, 3, 62, 63]).collect() };
        let tails: Vec<usize> = if tier == Tier::Thorough { vec![0, 1, 16, 32, 48, 62] } else { vec![0, 32] };
        let pairs: Vec<usize> = if tier == Tier::Thorough { (0..64).step_by(4).collect() } else { vec![0, 13, 31, 47, 62] };
        (targets(seed, n), pos, tails, pairs)
    };
    if tg.is_empty() {
        eprintln!("INCONCLUSIVE: no traceable request was generated");
        std::process::exit(2);
    }

    // variants: (target, position, tail)
    let mut variants: Vec<(usize, usize, u8)> = Vec::new();
    for t in 0..tg.len() {
        // baseline twice
        variants.push((t, positions[0], ONE));
        variants.push((t, positions[0], ONE));
        for &p in positions.iter().skip(1) {
            variants.push((t, p, ONE));
        }
        for &p in &tails {
            variants.push((t, p, TAIL));
        }
        for &p in &pairs {
            variants.push((t, p, BALANCED));
            variants.push((t, p, EXCHANGED));
            variants.push((t, p, OTHER));
        }
        for &p in &pairs {
            variants.push((t, p, UPPER));
        }
    }

    // the capturing logger is installed for the whole process family (max level Trace); whether records are rendered
    // is decided per tracee
    exec::enable_log_capture();
    // ---- warm-up in the parent image: every lazily initialised global, both accept and refuse paths
    for (_, t) in &tg {
        let _ = exec::run(&t.case);
        let mut c = t.case.clone();
        let ns = variant_sig(&t.sig, 5, ONE);
        replace_signature(&mut c.req, &t.sig, &ns);
        let _ = exec::run(&c);
        let _ = exec::with_logs(|| exec::run(&c));
        let _ = exec::with_logs(|| exec::run(&c));
    }

    // the parent has refused 3 requests per target so far; each tracee adds as many as it takes to make the traced
    // refusal the N-th of its process, N a round number that differs per target
    const NTH: [u32; 8] = [10_000, 1_000, 4_096, 100, 65_536, 256, 50_000, 16];
    let mut tg = tg;
    let done = 3 * tg.len() as u32;
    let mut nths = Vec::new();
    for (i, (_, t)) in tg.iter_mut().enumerate() {
        let nth = NTH[i % NTH.len()].max(done + 1);
        t.warm = nth - 1 - done;
        nths.push(nth);
    }
    ctx.extra("traced_refusal_is_the_nth_of_its_process", json!(nths));

    // ---- tracer processes. Everything they need is allocated BEFORE the first fork and nothing is
    // allocated between forks, so every tracer (and therefore every tracee) starts from the same image.
    let workers = ctx.threads.min(variants.len()).max(1);
    let max_steps: u64 = 5_000_000;
    let block_step = std::env::var("VERIF_C07_BLOCKSTEP").map(|v| v == "1").unwrap_or(false);
    let mut fds: Vec<[libc::c_int; 2]> = vec![[0, 0]; workers];
    let mut pids: Vec<libc::pid_t> = vec![0; workers];
    let mut table: Vec<TraceResult> = vec![TraceResult::default(); variants.len()];
    for w in 0..workers {
        if unsafe { libc::pipe(fds[w].as_mut_ptr()) } != 0 {
            eprintln!("INCONCLUSIVE: pipe failed");
            std::process::exit(2);
        }
    }
    for w in 0..workers {
        unsafe {
            let pid = libc::fork();
            if pid == 0 {
                let mut vi = w;
                while vi < variants.len() {
                    let (t, p, tail) = variants[vi];
                    table[vi] = trace_one(&tg[t].1, p, tail, max_steps, block_step);
                    vi += workers;
                }
                let mut out = String::new();
                let mut vi = w;
                while vi < variants.len() {
                    out.push_str(&format!("{} {} {} {}\n", vi, table[vi].hash, table[vi].steps, table[vi].ok as u8));
                    vi += workers;
                }
                let b = out.as_bytes();
                let mut off = 0;
                while off < b.len() {
                    let n = libc::write(fds[w][1], b[off..].as_ptr() as *const libc::c_void, b.len() - off);
                    if n <= 0 {
                        break;
                    }
                    off += n as usize;
                }
                libc::_exit(0);
            }
            pids[w] = pid;
        }
    }
    let mut pipes: Vec<(libc::pid_t, std::fs::File)> = Vec::new();
    for w in 0..workers {
        unsafe {
            libc::close(fds[w][1]);
            use std::os::unix::io::FromRawFd;
            pipes.push((pids[w], std::fs::File::from_raw_fd(fds[w][0])));
        }
    }
    let mut results: Vec<Option<TraceResult>> = vec![None; variants.len()];
    for (pid, mut f) in pipes {
        let mut s = String::new();
        let _ = f.read_to_string(&mut s);
        unsafe {
            let mut st = 0;
            libc::waitpid(pid, &mut st, 0);
        }
        for line in s.lines() {
            let f: Vec<&str> = line.split(' ').collect();
            if f.len() == 4 {
                if let (Ok(vi), Ok(h), Ok(n)) = (f[0].parse::<usize>(), f[1].parse::<u64>(), f[2].parse::<u64>()) {
                    results[vi] = Some(TraceResult { hash: h, steps: n, ok: f[3] == "1" });
                }
            }
        }
    }

    // ---- oracle
    let mut samples_left = 6;
    for t in 0..tg.len() {
        let idx: Vec<usize> = (0..variants.len()).filter(|i| variants[*i].0 == t).collect();
        let (b0, b1) = (results[idx[0]], results[idx[1]]);
        let digest = tg[t].1.case.req.digest();
        match (b0, b1) {
            (Some(x), Some(y)) if x.ok && y.ok && x.hash == y.hash && x.steps == y.steps => {}
            (x, y) => {
                ctx.inconclusive.lock().unwrap().push(format!(
                    "request {}: the same variant traced twice gave {:?} and {:?} (steps, refused-with-mismatch); trace baseline is not reproducible",
                    t,
                    x.map(|r| (r.steps, r.ok)),
                    y.map(|r| (r.steps, r.ok))
                ));
                continue;
            }
        }
        let base0 = b0.unwrap();
        // the upper-case group has its own baseline: its first member
        let upper_base = idx.iter().find(|vi| variants[**vi].2 == UPPER).and_then(|vi| results[*vi]).filter(|r| r.ok);
        for &vi in idx.iter().skip(1) {
            let (_, p, tail) = variants[vi];
            let base = if tail == UPPER {
                match upper_base {
                    Some(b) => b,
                    None => continue,
                }
            } else {
                base0
            };
            let mut cc = CaseCtx::default();
            match results[vi] {
                Some(r) if r.ok => {
                    cc.class(mode_name(tail));
                    cc.nontrivial(mix(digest, mode_name(tail), p as u64));
                    if samples_left > 0 {
                        samples_left -= 1;
                        cc.sample(json!({"request": format!("{} {}", tg[t].1.case.req.method, tg[t].1.case.req.uri), "carrier": format!("{:?}", tg[t].0.spec.carrier), "first_wrong_position": p, "variant": mode_name(tail), "trace_logging": tg[t].1.logged,
                            "steps": r.steps, "trace_hash": format!("{:016x}", r.hash), "baseline_steps": base.steps}));
                    }
                    ctx.record("trace", cc);
                    if r.hash != base.hash || r.steps != base.steps {
                        let f = Failure::new(
                            "trace-depends-on-position",
                            format!(
                                "request {} ({:?} carrier, trace logging {}): refusing a signature first wrong at position {}{} executed {} instructions (trace {:016x}); first wrong at position {} executed {} (trace {:016x})",
                                t,
                                tg[t].0.spec.carrier,
                                if tg[t].1.logged { "on" } else { "off" },
                                p,
                                if tail == ONE { String::new() } else { format!(" ({})", mode_name(tail)) },
                                r.steps,
                                r.hash,
                                positions[0],
                                base.steps,
                                base.hash
                            ),
                        );
                        ctx.violation("trace", &json!({"plan": tg[t].0, "position": p, "mode": tail, "logged": tg[t].1.logged}), &f);
                        break;
                    }
                }
                other => {
                    ctx.inconclusive.lock().unwrap().push(format!("request {} position {}: trace not obtained ({:?})", t, p, other.map(|r| (r.steps, r.ok))));
                }
            }
        }
    }
    // the model agrees these variants are decided by the signature comparison
    for (p, t) in &tg {
        let mut c = t.case.clone();
        replace_signature(&mut c.req, &t.sig, &variant_sig(&t.sig, 7, ONE));
        match analyze(&c).verdict() {
            Verdict::Reject { rank, .. } if *rank == R_SIGNATURE => {}
            other => ctx.inconclusive.lock().unwrap().push(format!("model does not place the refusal at the signature rule: {} ({:?})", other.short(), p.spec.carrier)),
        }
    }
    ctx.extra("traced_requests", json!(tg.len()));
    ctx.extra("positions", json!(positions));
    std::process::exit(ctx.finish());
}
