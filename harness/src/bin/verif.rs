//! verif <ID> [--tier quick|thorough] [--replay FILE] [--strict] [--only SUB]
use vh::engine::{Ctx, Tier};
use vh::{exec, model, props};

fn main() {
    let args: Vec<String> = std::env::args().collect();
    if args.len() < 2 {
        eprintln!("usage: verif <ID> [--tier quick|thorough] [--replay FILE] [--only SUB]");
        std::process::exit(2);
    }
    let id = args[1].clone();
    let mut tier = match std::env::var("VERIF_TIER").as_deref() {
        Ok("thorough") => Tier::Thorough,
        _ => Tier::Quick,
    };
    let mut replay: Option<String> = None;
    let mut only: Option<String> = None;
    let mut strict = false;
    let mut i = 2;
    while i < args.len() {
        match args[i].as_str() {
            "--tier" => {
                i += 1;
                tier = if args.get(i).map(|s| s.as_str()) == Some("thorough") { Tier::Thorough } else { Tier::Quick };
            }
            "--replay" => {
                i += 1;
                replay = args.get(i).cloned();
            }
            "--only" => {
                i += 1;
                only = args.get(i).cloned();
            }
            "--strict" => strict = true,
            _ => {}
        }
        i += 1;
    }
    let seed: u64 = std::env::var("VERIF_SEED").ok().and_then(|s| s.parse::<i64>().ok()).map(|v| v as u64).unwrap_or(0);

    if id == "__c10worker" {
        let seed: u64 = args.get(2).and_then(|s| s.parse().ok()).unwrap_or(0);
        let n: usize = args.get(3).and_then(|s| s.parse().ok()).unwrap_or(100);
        vh::exec::install_quiet_panic_hook();
        props::c10::worker(seed, n);
        return;
    }
    if id == "__c18worker" {
        let seed: u64 = args.get(2).and_then(|s| s.parse().ok()).unwrap_or(0);
        let n: usize = args.get(3).and_then(|s| s.parse().ok()).unwrap_or(100);
        let t: usize = args.get(4).and_then(|s| s.parse().ok()).unwrap_or(16);
        vh::exec::install_quiet_panic_hook();
        props::c18::worker(seed, n, t);
        return;
    }
    if id == "__fuzzone" {
        // verif __fuzzone <ID> <file>...  : run saved fuzz inputs through the same entry point (no sanitizer)
        std::env::set_var("VERIF_FUZZ_PROP", args.get(2).cloned().unwrap_or_default());
        for f in &args[3..] {
            let data = std::fs::read(f).unwrap_or_default();
            let t = std::time::Instant::now();
            vh::fuzz::one(&data);
            eprintln!("{}: {} bytes ok in {:?}", f, data.len(), t.elapsed());
        }
        return;
    }
    if id == "list" {
        // verif list : property -> sub-checks, as registered
        for p in props::registry() {
            let names: Vec<&str> = (p.subs)().iter().map(|s| s.name()).collect();
            println!("{}: {}{}", p.id, names.join(", "), if p.extra.is_some() { ", + process/thread stage" } else { "" });
        }
        return;
    }
    if id == "selftest" {
        match selftest() {
            Ok(n) => {
                println!("model self-test ok ({} AWS vectors)", n);
                std::process::exit(0)
            }
            Err(e) => {
                eprintln!("{}", e);
                std::process::exit(2)
            }
        }
    }
    if let Err(e) = selftest() {
        eprintln!("INCONCLUSIVE: {}", e);
        std::process::exit(2);
    }
    exec::install_quiet_panic_hook();
    let reg = props::registry();
    let Some(p) = reg.iter().find(|p| p.id == id) else {
        eprintln!("unknown property {}", id);
        std::process::exit(2);
    };
    let ctx = Ctx::new(p.id, tier, seed, strict);
    ctx.set_rule(p.rule);
    for a in props::COMMON_ASSUMPTIONS.iter().chain(p.assumptions.iter()) {
        ctx.assume(a);
    }
    let subs = (p.subs)();
    if let Some(file) = replay {
        let text = std::fs::read_to_string(&file).unwrap_or_else(|e| {
            eprintln!("cannot read {}: {}", file, e);
            std::process::exit(2)
        });
        let v: serde_json::Value = serde_json::from_str(&text).unwrap_or_else(|e| {
            eprintln!("cannot parse {}: {}", file, e);
            std::process::exit(2)
        });
        let sub = v.get("check").and_then(|x| x.as_str()).unwrap_or("");
        let Some(s) = subs.iter().find(|s| s.name() == sub) else {
            eprintln!("replay file names unknown check {}", sub);
            std::process::exit(2);
        };
        let ok = s.replay(&ctx, &v["case"]);
        if ok && ctx.violations() == 0 {
            println!("replay {}: property held on this case", file);
        }
        std::process::exit(ctx.finish_replay());
    }
    // committed regression inputs first
    replay_committed(&ctx, &subs);
    for s in &subs {
        if let Some(o) = &only {
            if s.name() != o {
                continue;
            }
        }
        s.run(&ctx, tier);
    }
    if only.is_none() {
        if let Some(x) = p.extra {
            x(&ctx);
        }
    }
    if let Ok(f) = std::env::var("VERIF_FUZZ_STATS") {
        if let Ok(t) = std::fs::read_to_string(&f) {
            if let Ok(v) = serde_json::from_str::<serde_json::Value>(&t) {
                ctx.extra("libfuzzer_campaign", v);
            }
        }
    }
    std::process::exit(ctx.finish());
}

fn selftest() -> Result<usize, String> {
    model::crypto::self_test()?;
    model::time::self_test()?;
    model::selftest::self_test()
}

fn replay_committed(ctx: &Ctx, subs: &[Box<dyn props::common::AnySub>]) {
    let dir = format!("{}/regress/{}", vh::engine::verif_dir(), ctx.id);
    let Ok(rd) = std::fs::read_dir(&dir) else { return };
    let mut files: Vec<_> = rd.filter_map(|e| e.ok()).map(|e| e.path()).filter(|p| p.extension().map(|x| x == "json").unwrap_or(false)).collect();
    files.sort();
    for f in files {
        let Ok(text) = std::fs::read_to_string(&f) else { continue };
        let Ok(v) = serde_json::from_str::<serde_json::Value>(&text) else { continue };
        let sub = v.get("check").and_then(|x| x.as_str()).unwrap_or("");
        if let Some(s) = subs.iter().find(|s| s.name() == sub) {
            s.replay(ctx, &v["case"]);
        }
    }
}
