//! Drives generated checks: seeded proptest runners over worker threads, classification and
//! distinctness counting, known-finding matching, replay files, evidence files, exit codes.

use proptest::strategy::{BoxedStrategy, Strategy};
use proptest::test_runner::{Config, RngSeed, TestCaseError, TestError, TestRunner};
use serde::{de::DeserializeOwned, Serialize};
use serde_json::{json, Value};
use std::collections::{BTreeMap, HashSet};
use std::sync::atomic::{AtomicBool, AtomicU64, Ordering};
use std::sync::Mutex;

/// Where evidence / replays / known findings live. Always /verif for the registered checks; the seeded-change
/// matrix (tools/seedmatrix.py) points scratch evaluations elsewhere so they never touch the committed evidence.
pub fn verif_dir() -> String {
    std::env::var("VERIF_EVAL_DIR").unwrap_or_else(|_| "/verif".to_string())
}

#[derive(Clone, Copy, Debug, PartialEq, Eq)]
pub enum Tier {
    Quick,
    Thorough,
}

impl Tier {
    pub fn name(&self) -> &'static str {
        match self {
            Tier::Quick => "quick",
            Tier::Thorough => "thorough",
        }
    }
    /// pick the per-tier amount of work
    pub fn pick(&self, quick: u64, thorough: u64) -> u64 {
        match self {
            Tier::Quick => quick,
            Tier::Thorough => thorough,
        }
    }
}

/// A failed check of one case.
#[derive(Clone, Debug)]
pub struct Failure {
    /// machine-checkable signature of the failing *shape* (matched against known_findings.json)
    pub sig: String,
    pub msg: String,
}

impl Failure {
    pub fn new(sig: &str, msg: impl Into<String>) -> Failure {
        Failure { sig: sig.to_string(), msg: msg.into() }
    }
}

pub type CheckResult = Result<(), Failure>;

/// Per-case bookkeeping handed to a check.
#[derive(Default)]
pub struct CaseCtx {
    pub classes: Vec<&'static str>,
    pub nontrivial: Option<u64>,
    pub sample: Option<Value>,
    pub unspecified: bool,
    pub excluded: bool,
}

impl CaseCtx {
    pub fn class(&mut self, c: &'static str) {
        self.classes.push(c);
    }
    pub fn class_if(&mut self, cond: bool, c: &'static str) {
        if cond {
            self.classes.push(c);
        }
    }
    /// mark the case non-trivial; `digest` identifies it for distinctness counting
    pub fn nontrivial(&mut self, digest: u64) {
        self.nontrivial = Some(digest);
    }
    pub fn sample(&mut self, v: Value) {
        self.sample = Some(v);
    }
}

#[derive(Clone, Debug)]
pub struct KnownFinding {
    pub property: String,
    pub signature: String,
    pub what: String,
}

pub struct Ctx {
    pub id: String,
    pub tier: Tier,
    pub seed: u64,
    pub strict: bool,
    pub threads: usize,
    start: std::time::Instant,
    evals: AtomicU64,
    nontrivial: Mutex<HashSet<u64>>,
    classes: Mutex<BTreeMap<String, u64>>,
    samples: Mutex<Vec<Value>>,
    unspecified: AtomicU64,
    excluded: AtomicU64,
    violations: Mutex<Vec<(String, String)>>,
    known: Vec<KnownFinding>,
    known_hits: Mutex<BTreeMap<String, u64>>,
    exhaustive: Mutex<Vec<(String, u64)>>,
    extra: Mutex<BTreeMap<String, Value>>,
    pub inconclusive: Mutex<Vec<String>>,
    assumptions: Mutex<Vec<String>>,
    rule: Mutex<String>,
}

fn load_known(id: &str) -> Vec<KnownFinding> {
    let p = format!("{}/known_findings.json", verif_dir());
    let Ok(s) = std::fs::read_to_string(&p) else { return vec![] };
    let Ok(v) = serde_json::from_str::<Value>(&s) else { return vec![] };
    let mut out = vec![];
    if let Some(a) = v.get("open").and_then(|x| x.as_array()) {
        for e in a {
            let prop = e.get("property").and_then(|x| x.as_str()).unwrap_or("");
            let props: Vec<&str> = prop.split(',').map(|s| s.trim()).collect();
            if props.contains(&id) {
                out.push(KnownFinding {
                    property: id.to_string(),
                    signature: e.get("signature_suffix").and_then(|x| x.as_str()).unwrap_or("\u{0}").to_string(),
                    what: e.get("what").and_then(|x| x.as_str()).unwrap_or("").to_string(),
                });
            }
        }
    }
    out
}

pub fn mix(seed: u64, s: &str, i: u64) -> u64 {
    let mut v = Vec::new();
    v.extend_from_slice(&seed.to_le_bytes());
    v.extend_from_slice(s.as_bytes());
    v.extend_from_slice(&i.to_le_bytes());
    crate::model::crypto::fnv64(&v)
}

/// Run a check; a panic in the harness's own code becomes a "HARNESS" failure (inconclusive), not a crash.
pub fn guarded<C>(check: &(dyn Fn(&C, &mut CaseCtx) -> CheckResult + Sync), c: &C, cc: &mut CaseCtx) -> CheckResult {
    match std::panic::catch_unwind(std::panic::AssertUnwindSafe(|| check(c, cc))) {
        Ok(r) => r,
        Err(p) => {
            let m = if let Some(s) = p.downcast_ref::<&str>() {
                s.to_string()
            } else if let Some(s) = p.downcast_ref::<String>() {
                s.clone()
            } else {
                "panic".into()
            };
            Err(Failure::new("HARNESS", format!("the harness's own check code panicked: {}", m)))
        }
    }
}

impl Ctx {
    pub fn new(id: &str, tier: Tier, seed: u64, strict: bool) -> Ctx {
        let threads = std::env::var("VERIF_THREADS")
            .ok()
            .and_then(|s| s.parse().ok())
            .unwrap_or_else(|| std::thread::available_parallelism().map(|n| n.get()).unwrap_or(4).min(16));
        Ctx {
            id: id.to_string(),
            tier,
            seed,
            strict,
            threads,
            start: std::time::Instant::now(),
            evals: AtomicU64::new(0),
            nontrivial: Mutex::new(HashSet::new()),
            classes: Mutex::new(BTreeMap::new()),
            samples: Mutex::new(Vec::new()),
            unspecified: AtomicU64::new(0),
            excluded: AtomicU64::new(0),
            violations: Mutex::new(Vec::new()),
            known: load_known(id),
            known_hits: Mutex::new(BTreeMap::new()),
            exhaustive: Mutex::new(Vec::new()),
            extra: Mutex::new(BTreeMap::new()),
            inconclusive: Mutex::new(Vec::new()),
            assumptions: Mutex::new(Vec::new()),
            rule: Mutex::new(String::new()),
        }
    }

    pub fn set_rule(&self, r: &str) {
        *self.rule.lock().unwrap() = r.to_string();
    }
    pub fn assume(&self, a: &str) {
        self.assumptions.lock().unwrap().push(a.to_string());
    }
    pub fn extra(&self, k: &str, v: Value) {
        self.extra.lock().unwrap().insert(k.to_string(), v);
    }
    pub fn note_exhaustive(&self, what: &str, n: u64) {
        self.exhaustive.lock().unwrap().push((what.to_string(), n));
    }
    pub fn violations(&self) -> usize {
        self.violations.lock().unwrap().len()
    }
    pub fn is_known(&self, sig: &str) -> bool {
        !self.strict && self.known.iter().any(|k| sig.ends_with(&k.signature))
    }

    /// Account one executed case.
    pub fn record(&self, sub: &str, cc: CaseCtx) {
        self.evals.fetch_add(1, Ordering::Relaxed);
        if cc.unspecified {
            self.unspecified.fetch_add(1, Ordering::Relaxed);
        }
        if cc.excluded {
            self.excluded.fetch_add(1, Ordering::Relaxed);
        }
        if !cc.classes.is_empty() {
            let mut c = self.classes.lock().unwrap();
            for k in cc.classes {
                *c.entry(format!("{}:{}", sub, k)).or_insert(0) += 1;
            }
        }
        if let Some(d) = cc.nontrivial {
            let mut nt = self.nontrivial.lock().unwrap();
            let fresh = nt.insert(mix(d, sub, 0));
            drop(nt);
            if fresh {
                if let Some(s) = cc.sample {
                    let mut sm = self.samples.lock().unwrap();
                    let per_sub = sm.iter().filter(|v| v.get("check").and_then(|x| x.as_str()) == Some(sub)).count();
                    if per_sub < 3 {
                        sm.push(json!({"check": sub, "case": s}));
                    }
                }
            }
        }
    }

    /// A failure came back from a check. Returns true when it is a listed known finding
    /// (the search goes on), false when it is a violation.
    pub fn known_hit(&self, f: &Failure) -> bool {
        if self.is_known(&f.sig) {
            let key = self.known.iter().find(|k| f.sig.ends_with(&k.signature)).map(|k| k.signature.clone()).unwrap_or_default();
            *self.known_hits.lock().unwrap().entry(key).or_insert(0) += 1;
            true
        } else {
            false
        }
    }

    /// Record a violation with its (already minimal) case; writes the replay file and prints the line.
    pub fn violation<C: Serialize>(&self, sub: &str, case: &C, f: &Failure) {
        let case_json = serde_json::to_value(case).unwrap_or(Value::Null);
        let body = json!({
            "property": self.id, "check": sub, "signature": f.sig, "reason": f.msg, "seed": self.seed,
            "tier": self.tier.name(), "case": case_json
        });
        let text = serde_json::to_string_pretty(&body).unwrap();
        let digest = crate::model::crypto::fnv64(serde_json::to_string(&body["case"]).unwrap().as_bytes());
        let dir = format!("{}/replays", verif_dir());
        let _ = std::fs::create_dir_all(&dir);
        let path = format!("{}/{}-{}-{:016x}.json", dir, self.id, sub, digest);
        let _ = std::fs::write(&path, text);
        println!("VIOLATION property={} replay={}", self.id, path);
        println!("  check={} signature={} reason={}", sub, f.sig, f.msg.replace('\n', " | "));
        self.violations.lock().unwrap().push((sub.to_string(), path));
    }

    /// Run `cases` generated cases of a sub-check over the worker threads.
    pub fn run_prop<C, F>(&self, sub: &str, cases: u64, strategy: impl Fn() -> BoxedStrategy<C> + Sync, check: F)
    where
        C: std::fmt::Debug + Clone + Serialize + Send + 'static,
        F: Fn(&C, &mut CaseCtx) -> CheckResult + Sync,
    {
        if cases == 0 {
            return;
        }
        let workers = (self.threads as u64).min(cases.max(1)).max(1);
        let per = (cases + workers - 1) / workers;
        let stop = AtomicBool::new(false);
        std::thread::scope(|sc| {
            for w in 0..workers {
                let strategy = &strategy;
                let check = &check;
                let stop = &stop;
                sc.spawn(move || {
                    let cfg = Config {
                        cases: per as u32,
                        failure_persistence: None,
                        rng_seed: RngSeed::Fixed(mix(self.seed, sub, w)),
                        max_shrink_iters: 4000,
                        max_global_rejects: 1_000_000,
                        ..Config::default()
                    };
                    let mut runner = TestRunner::new(cfg);
                    let failed = std::cell::Cell::new(false);
                    let last_fail: std::cell::RefCell<Option<Failure>> = std::cell::RefCell::new(None);
                    let res = runner.run(&strategy(), |c| {
                        if stop.load(Ordering::Relaxed) && !failed.get() {
                            // another worker already found a violation in this sub-check
                            return Ok(());
                        }
                        let mut cc = CaseCtx::default();
                        let r = guarded(check, &c, &mut cc);
                        match r {
                            Ok(()) => {
                                if !failed.get() {
                                    self.record(sub, cc);
                                }
                                Ok(())
                            }
                            Err(f) => {
                                if f.sig == "HARNESS" {
                                    self.harness_problem(sub, &f);
                                    Ok(())
                                } else if self.is_known(&f.sig) {
                                    if !failed.get() {
                                        cc.excluded = true;
                                        self.record(sub, cc);
                                        self.known_hit(&f);
                                    }
                                    Ok(())
                                } else {
                                    failed.set(true);
                                    let m = f.msg.clone();
                                    *last_fail.borrow_mut() = Some(f);
                                    Err(TestCaseError::fail(m))
                                }
                            }
                        }
                    });
                    match res {
                        Ok(()) => {}
                        Err(TestError::Fail(_, minimal)) => {
                            if stop.swap(true, Ordering::SeqCst) {
                                // another worker of this sub-check already reported; one shrunk case per sub-check
                                return;
                            }
                            // re-run the minimal case to get its own failure text
                            let mut cc = CaseCtx::default();
                            let f = match guarded(check, &minimal, &mut cc) {
                                Err(f) => f,
                                Ok(()) => last_fail.borrow().clone().unwrap_or(Failure::new("unstable", "failure did not reproduce on the shrunk case")),
                            };
                            self.violation(sub, &minimal, &f);
                        }
                        Err(TestError::Abort(r)) => {
                            self.inconclusive.lock().unwrap().push(format!("{}: generator aborted: {}", sub, r));
                        }
                    }
                });
            }
        });
    }

    /// Run a check over an explicit list/iterator of cases (exhaustive enumerations), in parallel chunks.
    pub fn run_enum<C, F>(&self, sub: &str, cases: Vec<C>, exhaustive: bool, check: F)
    where
        C: std::fmt::Debug + Clone + Serialize + Send + Sync,
        F: Fn(&C, &mut CaseCtx) -> CheckResult + Sync,
    {
        let n = cases.len();
        if exhaustive {
            self.note_exhaustive(sub, n as u64);
        }
        let workers = self.threads.min(n.max(1)).max(1);
        let chunk = (n + workers - 1) / workers.max(1);
        let reported = AtomicU64::new(0);
        std::thread::scope(|sc| {
            for part in cases.chunks(chunk.max(1)) {
                let check = &check;
                let reported = &reported;
                sc.spawn(move || {
                    for c in part {
                        let mut cc = CaseCtx::default();
                        match guarded(check, c, &mut cc) {
                            Ok(()) => self.record(sub, cc),
                            Err(f) => {
                                if f.sig == "HARNESS" {
                                    self.harness_problem(sub, &f);
                                } else if self.known_hit(&f) {
                                    cc.excluded = true;
                                    self.record(sub, cc);
                                } else {
                                    self.record(sub, cc);
                                    // report at most a few per enumeration; they usually share a root cause
                                    if reported.fetch_add(1, Ordering::Relaxed) < 3 {
                                        self.violation(sub, c, &f);
                                    }
                                }
                            }
                        }
                    }
                });
            }
        });
    }

    pub fn harness_problem(&self, sub: &str, f: &Failure) {
        let mut inc = self.inconclusive.lock().unwrap();
        if inc.len() < 5 {
            inc.push(format!("{}: harness self-consistency problem: {}", sub, f.msg));
        }
    }

    /// Replay one stored case through a check.
    pub fn replay_one<C, F>(&self, sub: &str, case_json: &Value, check: F) -> bool
    where
        C: std::fmt::Debug + Clone + Serialize + DeserializeOwned,
        F: Fn(&C, &mut CaseCtx) -> CheckResult,
    {
        let c: C = match serde_json::from_value(case_json.clone()) {
            Ok(c) => c,
            Err(e) => {
                self.inconclusive.lock().unwrap().push(format!("replay: cannot decode case for {}: {}", sub, e));
                return false;
            }
        };
        let mut cc = CaseCtx::default();
        match check(&c, &mut cc) {
            Ok(()) => {
                self.record(sub, cc);
                true
            }
            Err(f) => {
                if self.known_hit(&f) {
                    cc.excluded = true;
                    self.record(sub, cc);
                    true
                } else {
                    self.record(sub, cc);
                    self.violation(sub, &c, &f);
                    false
                }
            }
        }
    }

    /// Exit code for a single replay (no evidence file is written).
    pub fn finish_replay(&self) -> i32 {
        let known_hits = self.known_hits.lock().unwrap().clone();
        for k in &self.known {
            if known_hits.get(&k.signature).copied().unwrap_or(0) > 0 {
                println!("KNOWN-FINDING: property={} {} [signature={}]", self.id, k.what, k.signature);
            }
        }
        if self.violations() > 0 {
            1
        } else if !self.inconclusive.lock().unwrap().is_empty() {
            for i in self.inconclusive.lock().unwrap().iter() {
                eprintln!("INCONCLUSIVE: {}", i);
            }
            2
        } else {
            0
        }
    }

    /// Write the evidence file and return the process exit code.
    pub fn finish(&self) -> i32 {
        let evals = self.evals.load(Ordering::Relaxed);
        let nt = self.nontrivial.lock().unwrap().len() as u64;
        let classes: BTreeMap<String, u64> = self.classes.lock().unwrap().clone();
        let mut samples = self.samples.lock().unwrap().clone();
        if samples.is_empty() {
            samples.push(json!({"note": "no non-trivial case was sampled in this run"}));
        }
        let exhaustive = self.exhaustive.lock().unwrap().clone();
        let known_hits = self.known_hits.lock().unwrap().clone();
        let viol = self.violations.lock().unwrap().clone();
        let incon = self.inconclusive.lock().unwrap().clone();
        for k in &self.known {
            let hits = known_hits.get(&k.signature).copied().unwrap_or(0);
            if hits > 0 {
                println!("KNOWN-FINDING: property={} {} [signature={} cases={}]", self.id, k.what, k.signature, hits);
            }
        }
        let mut coverage = json!({
            "evaluations": evals,
            "distinct_nontrivial": nt,
            "rule": self.rule.lock().unwrap().clone(),
            "samples": samples,
            "classes": classes,
            "unspecified_cases": self.unspecified.load(Ordering::Relaxed),
            "excluded_known_finding_cases": self.excluded.load(Ordering::Relaxed),
            "known_finding_hits": known_hits,
            "exhaustive": !exhaustive.is_empty() && self.extra.lock().unwrap().get("all_exhaustive").is_some(),
            "exhaustive_subspaces": exhaustive.iter().map(|(k, n)| json!({"space": k, "size": n})).collect::<Vec<_>>(),
            "violating_replays": viol.iter().map(|(s, p)| json!({"check": s, "replay": p})).collect::<Vec<_>>(),
            "inconclusive": incon,
            "threads": self.threads,
        });
        for (k, v) in self.extra.lock().unwrap().iter() {
            coverage[k] = v.clone();
        }
        let ev = json!({
            "property_id": self.id,
            "tier": self.tier.name(),
            "seed": self.seed,
            "level": "exploration",
            "coverage": coverage,
            "assumptions": self.assumptions.lock().unwrap().clone(),
            "wall_s": (self.start.elapsed().as_millis() as f64) / 1000.0,
            "violations": viol.len(),
        });
        let dir = format!("{}/evidence", verif_dir());
        let _ = std::fs::create_dir_all(&dir);
        let path = format!("{}/{}.json", dir, self.id);
        if !self.strict {
            if let Err(e) = std::fs::write(&path, serde_json::to_string_pretty(&ev).unwrap()) {
                eprintln!("cannot write evidence file {}: {}", path, e);
                return 2;
            }
        }
        println!(
            "{} {}: evaluations={} distinct_nontrivial={} unspecified={} known_finding_cases={} violations={} wall={:.1}s",
            self.id,
            self.tier.name(),
            evals,
            nt,
            self.unspecified.load(Ordering::Relaxed),
            self.excluded.load(Ordering::Relaxed),
            viol.len(),
            self.start.elapsed().as_secs_f64()
        );
        if !viol.is_empty() {
            1
        } else if !incon.is_empty() {
            for i in &incon {
                eprintln!("INCONCLUSIVE: {}", i);
            }
            2
        } else {
            0
        }
    }
}

/// Monotone index mapping (keeps shrinking effective).
pub fn pick_idx(x: u16, len: usize) -> usize {
    if len == 0 {
        0
    } else {
        ((x as usize) * len) >> 16
    }
}

pub fn boxed<S: Strategy + 'static>(s: S) -> BoxedStrategy<S::Value> {
    s.boxed()
}
