//! Runs the real crate on a concrete case and records everything observable: the result, the
//! provider's call log, (optionally) log records.

use crate::model::time::Instant;
use crate::model::verify::{provider_outcome, ProvOutcome};
use crate::types::*;
use bytes::Bytes;
use chrono::{DateTime, NaiveDate, Utc};
use scratchstack_aws_principal::{AssumedRole, CanonicalUser, FederatedUser, Principal, PrincipalIdentity, RootUser, Service as SvcPrincipal, SessionData, SessionValue, User};
use scratchstack_aws_signature::{
    sigv4_validate_request, GetSigningKeyRequest, GetSigningKeyResponse, KSecretKey, SignatureError, SignatureOptions,
    SignedHeaderRequirements, SliceSignedHeaderRequirements, VecSignedHeaderRequirements,
};
use std::borrow::Cow;
use std::cell::RefCell;
use std::future::Future;
use std::panic::{catch_unwind, AssertUnwindSafe};
use std::pin::Pin;
use std::str::FromStr;
use std::sync::{Arc, Mutex};
use std::task::{Context, Poll, RawWaker, RawWakerVTable, Waker};
use tower::BoxError;

#[derive(Clone, Debug, PartialEq, Eq)]
pub enum ProvEvent {
    PollReady { result: &'static str },
    Call { query: KeyQuery, after_ready: bool },
    FutPoll { pending: bool },
}

#[derive(Clone, Debug)]
pub struct OkParts {
    pub method: String,
    pub uri: String,
    pub version: u8,
    pub headers: Vec<(String, B)>,
    pub body: B,
    pub principal: Principal,
    pub session: SessionData,
}

#[derive(Clone, Debug)]
pub struct ErrInfo {
    /// None when the boxed error is not a SignatureError
    pub kind: Option<Kind>,
    pub code: String,
    pub status: u16,
    pub msg: String,
    pub debug: String,
}

#[derive(Clone, Debug)]
pub enum Res {
    Ok(Box<OkParts>),
    Err(ErrInfo),
    Panic(String),
    /// the `http` crate cannot represent this request: outside the library's input domain
    Unrepresentable(String),
    /// the validation future did not complete within the poll budget
    Hang,
}

impl Res {
    pub fn short(&self) -> String {
        match self {
            Res::Ok(_) => "Ok".into(),
            Res::Err(e) => format!("Err({:?}/{}/{}: {})", e.kind, e.code, e.status, e.msg),
            Res::Panic(m) => format!("PANIC({})", m),
            Res::Unrepresentable(m) => format!("Unrepresentable({})", m),
            Res::Hang => "Hang".into(),
        }
    }
    pub fn kind(&self) -> Option<Kind> {
        match self {
            Res::Err(e) => e.kind,
            _ => None,
        }
    }
    pub fn is_ok(&self) -> bool {
        matches!(self, Res::Ok(_))
    }
}

#[derive(Clone, Debug)]
pub struct Outcome {
    pub res: Res,
    pub prov_log: Vec<ProvEvent>,
    pub polls: u32,
}

impl Outcome {
    pub fn calls(&self) -> usize {
        self.prov_log.iter().filter(|e| matches!(e, ProvEvent::Call { .. })).count()
    }
    pub fn call_queries(&self) -> Vec<&KeyQuery> {
        self.prov_log
            .iter()
            .filter_map(|e| match e {
                ProvEvent::Call { query, .. } => Some(query),
                _ => None,
            })
            .collect()
    }
}

pub fn kind_of(e: &SignatureError) -> Kind {
    match e {
        SignatureError::ExpiredToken(_) => Kind::ExpiredToken,
        SignatureError::IO(_) => Kind::IO,
        SignatureError::InternalServiceError(_) => Kind::InternalServiceError,
        SignatureError::InvalidBodyEncoding(_) => Kind::InvalidBodyEncoding,
        SignatureError::InvalidClientTokenId(_) => Kind::InvalidClientTokenId,
        SignatureError::InvalidContentType(_) => Kind::InvalidContentType,
        SignatureError::InvalidRequestMethod(_) => Kind::InvalidRequestMethod,
        SignatureError::IncompleteSignature(_) => Kind::IncompleteSignature,
        SignatureError::InvalidURIPath(_) => Kind::InvalidURIPath,
        SignatureError::MalformedQueryString(_) => Kind::MalformedQueryString,
        SignatureError::MissingAuthenticationToken(_) => Kind::MissingAuthenticationToken,
        SignatureError::SignatureDoesNotMatch(_) => Kind::SignatureDoesNotMatch,
        _ => Kind::IO,
    }
}

/// every stable io::ErrorKind a key store could plausibly report
pub const IO_KINDS: [std::io::ErrorKind; 24] = {
    use std::io::ErrorKind::*;
    [
        Other, NotFound, PermissionDenied, ConnectionReset, UnexpectedEof, TimedOut, WouldBlock, Interrupted, BrokenPipe, InvalidData, ConnectionRefused,
        ConnectionAborted, NotConnected, AddrInUse, AddrNotAvailable, AlreadyExists, InvalidInput, WriteZero, Unsupported, OutOfMemory, HostUnreachable,
        NetworkUnreachable, NetworkDown, ResourceBusy,
    ]
};

pub fn make_sig_err(k: Kind, msg: &str) -> SignatureError {
    let m = msg.to_string();
    match k {
        Kind::ExpiredToken => SignatureError::ExpiredToken(m),
        Kind::IO => {
            // the io::ErrorKind varies with the message so that every kind is exercised
            // "... (n)" at the end of the message selects the kind explicitly; otherwise it follows a digest of the message
            let explicit = m.strip_suffix(')').and_then(|x| x.rsplit_once('(')).and_then(|(_, n)| n.parse::<usize>().ok());
            let k = IO_KINDS[explicit.unwrap_or((crate::model::crypto::fnv64(m.as_bytes()) % IO_KINDS.len() as u64) as usize) % IO_KINDS.len()];
            SignatureError::IO(std::io::Error::new(k, m))
        }
        Kind::InternalServiceError => {
            // what a layered key service wraps: a message, another SignatureError (of a 4xx kind, or an
            // internal error again), an io::Error -- selected by the "(n)" suffix or a digest of the message
            let explicit = m.strip_suffix(')').and_then(|x| x.rsplit_once('(')).and_then(|(_, n)| n.parse::<usize>().ok());
            match explicit.unwrap_or((crate::model::crypto::fnv64(m.as_bytes()) % 6) as usize) % 6 {
                1 => SignatureError::InternalServiceError(Box::new(SignatureError::ExpiredToken(m))),
                2 => SignatureError::InternalServiceError(Box::new(SignatureError::InvalidClientTokenId(m))),
                3 => SignatureError::InternalServiceError(Box::new(SignatureError::InternalServiceError(m.into()))),
                4 => SignatureError::InternalServiceError(Box::new(std::io::Error::new(std::io::ErrorKind::TimedOut, m))),
                5 => SignatureError::InternalServiceError(Box::new(SignatureError::SignatureDoesNotMatch(Some(m)))),
                _ => SignatureError::InternalServiceError(m.into()),
            }
        }
        Kind::InvalidBodyEncoding => SignatureError::InvalidBodyEncoding(m),
        Kind::InvalidClientTokenId => SignatureError::InvalidClientTokenId(m),
        Kind::InvalidContentType => SignatureError::InvalidContentType(m),
        Kind::InvalidRequestMethod => SignatureError::InvalidRequestMethod(m),
        Kind::IncompleteSignature => SignatureError::IncompleteSignature(m),
        Kind::InvalidURIPath => SignatureError::InvalidURIPath(m),
        Kind::MalformedQueryString => SignatureError::MalformedQueryString(m),
        Kind::MissingAuthenticationToken => SignatureError::MissingAuthenticationToken(m),
        Kind::SignatureDoesNotMatch => SignatureError::SignatureDoesNotMatch(Some(m)),
    }
}

pub fn err_info(e: &SignatureError) -> ErrInfo {
    use scratchstack_aws_signature::errors::ServiceError;
    ErrInfo {
        kind: Some(kind_of(e)),
        code: e.error_code().to_string(),
        status: e.http_status().as_u16(),
        msg: e.to_string(),
        debug: format!("{:?}", e),
    }
}

#[derive(Debug)]
pub struct ForeignError(pub String);
impl std::fmt::Display for ForeignError {
    fn fmt(&self, f: &mut std::fmt::Formatter<'_>) -> std::fmt::Result {
        write!(f, "foreign provider failure: {}", self.0)
    }
}
impl std::error::Error for ForeignError {}

/// A provider failure that is not a SignatureError. The concrete error type varies with the message
/// ("... (n)" at the end selects it explicitly, otherwise a digest of the message does), so that the
/// crate's BoxError conversion is exercised with its own non-SignatureError types as well as with
/// unrelated ones. Every one of them has to surface as an internal failure.
pub fn foreign_error(m: &str) -> BoxError {
    let explicit = m.strip_suffix(')').and_then(|x| x.rsplit_once('(')).and_then(|(_, n)| n.parse::<usize>().ok());
    match explicit.unwrap_or((crate::model::crypto::fnv64(m.as_bytes()) % 8) as usize) % 8 {
        0 => Box::new(ForeignError(m.to_string())),
        // a bare io::Error of any kind ("transient" ones included: Interrupted, TimedOut, WouldBlock)
        1 => Box::new(std::io::Error::new(IO_KINDS[(crate::model::crypto::fnv64(m.as_bytes()) / 8 % IO_KINDS.len() as u64) as usize], m.to_string())),
        2 => Box::new(scratchstack_aws_signature::KeyTooLongError),
        3 => Box::new(std::fmt::Error),
        4 => BoxError::from(m.to_string()),
        5 => Box::new("not a date".parse::<DateTime<Utc>>().unwrap_err()),
        6 => Box::new(String::from_utf8(vec![0xff]).unwrap_err()),
        _ => match GetSigningKeyResponse::builder().build() {
            Err(e) => Box::new(e),
            Ok(_) => Box::new(ForeignError(m.to_string())),
        },
    }
}

pub fn build_principal(spec: &PrincipalSpec) -> Principal {
    match spec {
        PrincipalSpec::Empty => Principal::new(vec![]),
        PrincipalSpec::User { partition, account, path, name } => match User::new(partition, account, path, name) {
            Ok(u) => u.into(),
            Err(_) => Principal::new(vec![]),
        },
        PrincipalSpec::Role { partition, account, role, session } => {
            match AssumedRole::new(partition, account, role, session) {
                Ok(u) => u.into(),
                Err(_) => Principal::new(vec![]),
            }
        }
        PrincipalSpec::Service { name, region, suffix } => match SvcPrincipal::new(name, region.clone(), suffix) {
            Ok(u) => u.into(),
            Err(_) => Principal::new(vec![]),
        },
        PrincipalSpec::Federated { account, name } => FederatedUser::new("aws", account, name).map(Principal::from).unwrap_or_else(|_| Principal::new(vec![])),
        PrincipalSpec::Root { account } => RootUser::new("aws", account).map(Principal::from).unwrap_or_else(|_| Principal::new(vec![])),
        PrincipalSpec::Canonical { id } => CanonicalUser::new(id).map(Principal::from).unwrap_or_else(|_| Principal::new(vec![])),
        PrincipalSpec::Two { account, role, service } => {
            let mut ids: Vec<PrincipalIdentity> = Vec::new();
            if let Ok(r) = AssumedRole::new("aws", account, role, "sess") {
                ids.push(r.into());
            }
            if let Ok(s) = SvcPrincipal::new(service, None, "amazonaws.com") {
                ids.push(s.into());
            }
            Principal::new(ids)
        }
    }
}

pub fn build_session(s: &[(String, String)]) -> SessionData {
    let mut d = SessionData::new();
    for (k, v) in s {
        // the textual value selects the SessionValue variant so that every variant is exercised
        let val = if v == "@null" {
            SessionValue::Null
        } else if v == "true" || v == "false" {
            SessionValue::from(v == "true")
        } else if let Ok(i) = v.parse::<i64>() {
            SessionValue::from(i)
        } else if let Ok(ip) = v.parse::<std::net::IpAddr>() {
            SessionValue::from(ip)
        } else {
            SessionValue::from(v.as_str())
        };
        d.insert(k, val);
    }
    d
}

pub fn naive_date(date8: &str) -> Option<NaiveDate> {
    if date8.len() != 8 || !date8.bytes().all(|c| c.is_ascii_digit()) {
        return None;
    }
    NaiveDate::from_ymd_opt(date8[0..4].parse().ok()?, date8[4..6].parse().ok()?, date8[6..8].parse().ok()?)
}

/// The scripted key provider (a hand-written tower::Service so that readiness and pending
/// states are owned by the harness).
pub struct Prov {
    pub script: ProviderScript,
    pub log: Arc<Mutex<Vec<ProvEvent>>>,
    ready_left: u8,
    ready: bool,
}

impl Prov {
    pub fn new(script: ProviderScript) -> Prov {
        let r = script.ready_pending;
        Prov { script, log: Arc::new(Mutex::new(Vec::new())), ready_left: r, ready: false }
    }
    pub fn set_script(&mut self, script: ProviderScript) {
        self.ready_left = script.ready_pending;
        self.ready = false;
        self.script = script;
    }
    pub fn take_log(&self) -> Vec<ProvEvent> {
        std::mem::take(&mut *self.log.lock().unwrap())
    }
}

pub struct ProvFut {
    pending_left: u8,
    result: Option<Result<GetSigningKeyResponse, BoxError>>,
    log: Arc<Mutex<Vec<ProvEvent>>>,
}

impl Future for ProvFut {
    type Output = Result<GetSigningKeyResponse, BoxError>;
    fn poll(mut self: Pin<&mut Self>, cx: &mut Context<'_>) -> Poll<Self::Output> {
        if self.pending_left > 0 {
            self.pending_left -= 1;
            self.log.lock().unwrap().push(ProvEvent::FutPoll { pending: true });
            cx.waker().wake_by_ref();
            return Poll::Pending;
        }
        self.log.lock().unwrap().push(ProvEvent::FutPoll { pending: false });
        Poll::Ready(self.result.take().expect("provider future polled after completion"))
    }
}

fn answer_to_err(k: Kind, m: &str) -> BoxError {
    Box::new(make_sig_err(k, m))
}

impl tower::Service<GetSigningKeyRequest> for Prov {
    type Response = GetSigningKeyResponse;
    type Error = BoxError;
    type Future = ProvFut;

    fn poll_ready(&mut self, cx: &mut Context<'_>) -> Poll<Result<(), BoxError>> {
        if self.ready_left > 0 {
            self.ready_left -= 1;
            self.log.lock().unwrap().push(ProvEvent::PollReady { result: "pending" });
            cx.waker().wake_by_ref();
            return Poll::Pending;
        }
        if let Some(e) = &self.script.ready_err {
            self.log.lock().unwrap().push(ProvEvent::PollReady { result: "err" });
            return Poll::Ready(Err(match e {
                Answer::SigErr(k, m) => answer_to_err(*k, m),
                Answer::Foreign(m) => foreign_error(m),
                Answer::Lookup => Box::new(ForeignError("not ready".into())),
            }));
        }
        self.ready = true;
        self.log.lock().unwrap().push(ProvEvent::PollReady { result: "ready" });
        Poll::Ready(Ok(()))
    }

    fn call(&mut self, req: GetSigningKeyRequest) -> ProvFut {
        let q = KeyQuery {
            access_key: req.access_key().to_string(),
            token: req.session_token().map(|s| s.to_string()),
            date8: req.request_date().format("%Y%m%d").to_string(),
            region: req.region().to_string(),
            service: req.service().to_string(),
        };
        self.log.lock().unwrap().push(ProvEvent::Call { query: q.clone(), after_ready: self.ready });
        self.ready = false;
        let mut script = self.script.clone();
        script.ready_err = None;
        let result: Result<GetSigningKeyResponse, BoxError> = match provider_outcome(&script, &q) {
            ProvOutcome::Err(k, m) => Err(answer_to_err(k, &m)),
            ProvOutcome::Foreign(m) => Err(foreign_error(&m)),
            ProvOutcome::Key { entry, .. } => {
                let e = &self.script.keys[entry];
                // The KSigningKey object can only be made through the crate's own derivation.
                match KSecretKey::<44>::from_str(&e.secret) {
                    Err(_) => Err(Box::new(ForeignError("secret too long for KSecretKey".into())) as BoxError),
                    Ok(ks) => {
                        let (date, region, service) = match &e.derive_as {
                            Some((d, r, s)) => (naive_date(d), r.clone(), s.clone()),
                            None => (Some(req.request_date()), q.region.clone(), q.service.clone()),
                        };
                        match date {
                            None => Err(Box::new(ForeignError("bad derive_as date".into())) as BoxError),
                            Some(date) => {
                                let key = ks.to_ksigning(date, &region, &service);
                                GetSigningKeyResponse::builder()
                                    .principal(build_principal(&e.principal))
                                    .session_data(build_session(&e.session))
                                    .signing_key(key)
                                    .build()
                                    .map_err(|e| Box::new(ForeignError(e.to_string())) as BoxError)
                            }
                        }
                    }
                }
            }
        };
        ProvFut { pending_left: self.script.call_pending, result: Some(result), log: self.log.clone() }
    }
}

fn noop_waker() -> Waker {
    fn clone(_: *const ()) -> RawWaker {
        RawWaker::new(std::ptr::null(), &VTABLE)
    }
    fn noop(_: *const ()) {}
    static VTABLE: RawWakerVTable = RawWakerVTable::new(clone, noop, noop, noop);
    unsafe { Waker::from_raw(RawWaker::new(std::ptr::null(), &VTABLE)) }
}

/// Poll a future to completion with a budget; None = did not complete.
pub fn block_on<F: Future>(f: F, budget: u32) -> (Option<F::Output>, u32) {
    let mut f = Box::pin(f);
    let w = noop_waker();
    let mut cx = Context::from_waker(&w);
    for i in 0..budget {
        if let Poll::Ready(v) = f.as_mut().poll(&mut cx) {
            return (Some(v), i + 1);
        }
    }
    (None, budget)
}

pub fn to_datetime(i: Instant) -> Option<DateTime<Utc>> {
    DateTime::<Utc>::from_timestamp(i.secs, i.nanos)
}

pub fn build_http(req: &WireRequest) -> Result<http::Request<Bytes>, String> {
    let ver = match req.version {
        9 => http::Version::HTTP_09,
        10 => http::Version::HTTP_10,
        11 => http::Version::HTTP_11,
        2 => http::Version::HTTP_2,
        3 => http::Version::HTTP_3,
        _ => http::Version::HTTP_11,
    };
    let method = http::Method::from_bytes(req.method.as_bytes()).map_err(|e| format!("method: {e}"))?;
    let uri = http::Uri::try_from(req.uri.as_str()).map_err(|e| format!("uri: {e}"))?;
    let mut b = http::Request::builder().method(method).uri(uri).version(ver);
    for (n, v) in &req.headers {
        let name = http::header::HeaderName::from_bytes(n.as_bytes()).map_err(|e| format!("header name: {e}"))?;
        let val = http::header::HeaderValue::from_bytes(&v.0).map_err(|e| format!("header value: {e}"))?;
        b = b.header(name, val);
    }
    b.body(Bytes::from(req.body.0.clone())).map_err(|e| format!("request: {e}"))
}

pub fn version_code(v: http::Version) -> u8 {
    match v {
        http::Version::HTTP_09 => 9,
        http::Version::HTTP_10 => 10,
        http::Version::HTTP_11 => 11,
        http::Version::HTTP_2 => 2,
        http::Version::HTTP_3 => 3,
        _ => 0,
    }
}

pub fn panic_message(p: Box<dyn std::any::Any + Send>) -> String {
    if let Some(s) = p.downcast_ref::<&str>() {
        s.to_string()
    } else if let Some(s) = p.downcast_ref::<String>() {
        s.clone()
    } else {
        "non-string panic payload".into()
    }
}

thread_local! {
    static LAST_PANIC_LOC: RefCell<Option<String>> = RefCell::new(None);
}

/// Install a panic hook that records the location quietly (no stderr spam from expected panics).
pub fn install_quiet_panic_hook() {
    std::panic::set_hook(Box::new(|info| {
        let loc = info.location().map(|l| format!("{}:{}", l.file(), l.line()));
        // panics of the crate under test are expected and caught; a panic in the harness's own code is not
        let own = loc.as_deref().map(|l| l.starts_with("src/") && !l.starts_with("src/lib")).unwrap_or(false) && !loc.as_deref().unwrap_or("").contains("/repo/");
        if own || std::env::var("VERIF_DEBUG").is_ok() {
            eprintln!("harness panic: {}", info);
        }
        LAST_PANIC_LOC.with(|c| *c.borrow_mut() = loc);
    }));
}

pub fn take_panic_location() -> Option<String> {
    LAST_PANIC_LOC.with(|c| c.borrow_mut().take())
}

pub fn convert_result(r: Result<(http::request::Parts, Bytes, scratchstack_aws_signature::auth::SigV4AuthenticatorResponse), BoxError>) -> Res {
    match r {
        Ok((parts, body, resp)) => {
            let mut headers = Vec::new();
            for (n, v) in parts.headers.iter() {
                headers.push((n.as_str().to_string(), B(v.as_bytes().to_vec())));
            }
            Res::Ok(Box::new(OkParts {
                method: parts.method.to_string(),
                uri: parts.uri.to_string(),
                version: version_code(parts.version),
                headers,
                body: B(body.to_vec()),
                principal: resp.principal().clone(),
                session: resp.session_data().clone(),
            }))
        }
        Err(e) => match e.downcast::<SignatureError>() {
            Ok(se) => Res::Err(err_info(&se)),
            Err(other) => Res::Err(ErrInfo {
                kind: None,
                code: "<not a SignatureError>".into(),
                status: 0,
                msg: other.to_string(),
                debug: format!("{:?}", other),
            }),
        },
    }
}

thread_local! {
    static POLL_BUDGET: std::cell::Cell<u32> = const { std::cell::Cell::new(100_000) };
}

/// Run `f` with the validation futures started inside it polled at most `n` times and then DROPPED
/// (a caller that gives up: timeout, client disconnect); such a validation is reported as `Res::Hang`.
pub fn with_poll_budget<T>(n: u32, f: impl FnOnce() -> T) -> T {
    let old = POLL_BUDGET.with(|b| b.replace(n));
    let r = f();
    POLL_BUDGET.with(|b| b.set(old));
    r
}

fn validate_with<S: SignedHeaderRequirements>(
    http_req: http::Request<Bytes>,
    cfg: &ServerConfig,
    now: DateTime<Utc>,
    prov: &mut Prov,
    reqs: &S,
) -> (Res, u32) {
    let opts = SignatureOptions { s3: cfg.s3, url_encode_form: cfg.fold };
    // all three body conversions of the public API are exercised, chosen deterministically from the request
    let body_len = http_req.body().len();
    let selector = (http_req.uri().to_string().len() + http_req.headers().len() + body_len) % 3;
    let budget = POLL_BUDGET.with(|b| b.get());
    let r = catch_unwind(AssertUnwindSafe(|| match selector {
        0 if body_len == 0 => block_on(sigv4_validate_request(http_req.map(|_| ()), &cfg.region, &cfg.service, prov, now, reqs, opts), budget),
        1 => block_on(sigv4_validate_request(http_req.map(|b| b.to_vec()), &cfg.region, &cfg.service, prov, now, reqs, opts), budget),
        _ => block_on(sigv4_validate_request(http_req, &cfg.region, &cfg.service, prov, now, reqs, opts), budget),
    }));
    match r {
        Err(p) => {
            let loc = take_panic_location().unwrap_or_default();
            (Res::Panic(format!("{} @ {}", panic_message(p), loc)), 0)
        }
        Ok((None, n)) => (Res::Hang, n),
        Ok((Some(v), n)) => (convert_result(v), n),
    }
}

/// Build the requirements object through the route named in the config and run the validation.
pub fn run_with_provider(req: &WireRequest, cfg: &ServerConfig, prov: &mut Prov) -> Outcome {
    let http_req = match build_http(req) {
        Ok(r) => r,
        Err(e) => return Outcome { res: Res::Unrepresentable(e), prov_log: vec![], polls: 0 },
    };
    let now = match to_datetime(cfg.now) {
        Some(n) => n,
        None => return Outcome { res: Res::Unrepresentable("server time not representable".into()), prov_log: vec![], polls: 0 },
    };
    let r = &cfg.reqs;
    // building the requirement set is the crate's code too (new / add_* / remove_*): a panic there is the crate's
    let built = catch_unwind(AssertUnwindSafe(|| run_route(http_req, cfg, now, prov, r)));
    let (res, polls) = match built {
        Ok(x) => x,
        Err(p) => {
            let loc = take_panic_location().unwrap_or_default();
            (Res::Panic(format!("{} @ {} (while building the signed-header requirements, route {})", panic_message(p), loc, r.route)), 0)
        }
    };
    Outcome { res, prov_log: prov.take_log(), polls }
}

fn run_route(http_req: http::Request<Bytes>, cfg: &ServerConfig, now: DateTime<Utc>, prov: &mut Prov, r: &Reqs) -> (Res, u32) {
    match r.route {
        0 => {
            let a: Vec<Cow<'_, str>> = r.always.iter().map(|s| Cow::Borrowed(s.as_str())).collect();
            let b: Vec<Cow<'_, str>> = r.if_in_request.iter().map(|s| Cow::Borrowed(s.as_str())).collect();
            let c: Vec<Cow<'_, str>> = r.prefixes.iter().map(|s| Cow::Borrowed(s.as_str())).collect();
            let reqs = SliceSignedHeaderRequirements::new(&a, &b, &c);
            validate_with(http_req, cfg, now, prov, &reqs)
        }
        1 => {
            let a: Vec<&str> = r.always.iter().map(|s| s.as_str()).collect();
            let b: Vec<&str> = r.if_in_request.iter().map(|s| s.as_str()).collect();
            let c: Vec<&str> = r.prefixes.iter().map(|s| s.as_str()).collect();
            let reqs = VecSignedHeaderRequirements::new(&a, &b, &c);
            validate_with(http_req, cfg, now, prov, &reqs)
        }
        2 => {
            let mut reqs = VecSignedHeaderRequirements::default();
            for h in &r.always {
                reqs.add_always_present(h);
            }
            for h in &r.if_in_request {
                reqs.add_if_in_request(h);
            }
            for h in &r.prefixes {
                reqs.add_prefix(h);
            }
            validate_with(http_req, cfg, now, prov, &reqs)
        }
        _ => {
            // a configuration HISTORY: surplus entries (mixed-case spellings) are registered through `new`
            // (route 3) or `add_*` (route 4) next to the declared ones and removed again, each in some
            // other spelling; what remains is exactly the declared set
            const SURPLUS: [&str; 4] = ["Content-MD5", "If-Match", "X-Surplus-Header", "ETag"];
            let declared = |n: &str| r.always.iter().chain(r.if_in_request.iter()).chain(r.prefixes.iter()).any(|d| d.eq_ignore_ascii_case(n));
            let k = r.always.len() + 2 * r.if_in_request.len() + 3 * r.prefixes.len();
            let surplus: Vec<&str> = SURPLUS.iter().copied().filter(|n| !declared(n)).collect();
            let respell = |n: &str, i: usize| match (k + i) % 3 {
                0 => n.to_string(),
                1 => n.to_ascii_lowercase(),
                _ => n.to_ascii_uppercase(),
            };
            let mut reqs = if r.route == 3 {
                let a: Vec<&str> = r.always.iter().map(|s| s.as_str()).chain(surplus.iter().copied().take(1)).collect();
                let b: Vec<&str> = r.if_in_request.iter().map(|s| s.as_str()).chain(surplus.iter().copied().skip(1)).collect();
                let c: Vec<&str> = r.prefixes.iter().map(|s| s.as_str()).chain(std::iter::once("X-Surplus-Prefix-")).collect();
                VecSignedHeaderRequirements::new(&a, &b, &c)
            } else {
                let mut q = VecSignedHeaderRequirements::default();
                for (i, h) in surplus.iter().enumerate() {
                    if i == 0 {
                        q.add_always_present(h);
                    } else {
                        q.add_if_in_request(h);
                    }
                }
                q.add_prefix("X-Surplus-Prefix-");
                for h in &r.always {
                    q.add_always_present(h);
                }
                for h in &r.if_in_request {
                    q.add_if_in_request(h);
                }
                for h in &r.prefixes {
                    q.add_prefix(h);
                }
                q
            };
            for (i, h) in surplus.iter().enumerate() {
                if i == 0 {
                    reqs.remove_always_present(&respell(h, i));
                } else {
                    reqs.remove_if_in_request(&respell(h, i));
                }
            }
            if !declared("X-Surplus-Prefix-") {
                reqs.remove_prefix(&respell("X-Surplus-Prefix-", 7));
            }
            validate_with(http_req, cfg, now, prov, &reqs)
        }
    }
}

pub fn run(case: &Case) -> Outcome {
    let mut prov = Prov::new(case.prov.clone());
    run_with_provider(&case.req, &case.cfg, &mut prov)
}

/// Several validations in flight on ONE thread: all futures are created first, then polled in the
/// (cycled) order given -- each suspends in its provider's key lookup when that is scripted as pending.
/// Requirement sets are not applied (NO_ADDITIONAL_SIGNED_HEADERS). Err = the crate panicked.
pub fn run_interleaved(cases: &[Case], order: &[u8]) -> Result<Vec<Outcome>, String> {
    use scratchstack_aws_signature::NO_ADDITIONAL_SIGNED_HEADERS;
    let mut inputs = Vec::new();
    for c in cases {
        let h = build_http(&c.req).map_err(|e| format!("UNREPRESENTABLE {}", e))?;
        let now = to_datetime(c.cfg.now).ok_or_else(|| "UNREPRESENTABLE server time".to_string())?;
        inputs.push((h, now));
    }
    let mut provs: Vec<Prov> = cases.iter().map(|c| Prov::new(c.prov.clone())).collect();
    let mut results: Vec<Option<Res>> = vec![None; cases.len()];
    let r = catch_unwind(AssertUnwindSafe(|| {
        let mut futs: Vec<Option<Pin<Box<dyn Future<Output = _> + '_>>>> = Vec::new();
        for ((c, p), (h, now)) in cases.iter().zip(provs.iter_mut()).zip(inputs.into_iter()) {
            let opts = SignatureOptions { s3: c.cfg.s3, url_encode_form: c.cfg.fold };
            futs.push(Some(Box::pin(sigv4_validate_request(h, &c.cfg.region, &c.cfg.service, p, now, &NO_ADDITIONAL_SIGNED_HEADERS, opts))));
        }
        let w = noop_waker();
        let mut cx = Context::from_waker(&w);
        let (mut k, mut budget) = (0usize, 100_000);
        while futs.iter().any(|f| f.is_some()) && budget > 0 {
            budget -= 1;
            let want = if order.is_empty() { 0 } else { order[k % order.len()] as usize } % futs.len();
            k += 1;
            let idx = (0..futs.len()).map(|d| (want + d) % futs.len()).find(|i| futs[*i].is_some()).unwrap();
            if let Poll::Ready(v) = futs[idx].as_mut().unwrap().as_mut().poll(&mut cx) {
                results[idx] = Some(convert_result(v));
                futs[idx] = None;
            }
        }
    }));
    if let Err(p) = r {
        let loc = take_panic_location().unwrap_or_default();
        return Err(format!("PANIC {} @ {}", panic_message(p), loc));
    }
    Ok(results.into_iter().zip(provs.iter()).map(|(r, p)| Outcome { res: r.unwrap_or(Res::Hang), prov_log: p.take_log(), polls: 0 }).collect())
}

// ---------------------------------------------------------------------------------------------
// log capture

thread_local! {
    static LOG_BUF: RefCell<Option<Vec<(log::Level, String)>>> = RefCell::new(None);
}

struct CaptureLogger;
impl log::Log for CaptureLogger {
    fn enabled(&self, _: &log::Metadata) -> bool {
        true
    }
    fn log(&self, record: &log::Record) {
        LOG_BUF.with(|b| {
            if let Some(v) = b.borrow_mut().as_mut() {
                v.push((record.level(), format!("{}", record.args())));
            }
        });
    }
    fn flush(&self) {}
}
static LOGGER: CaptureLogger = CaptureLogger;

/// Install the capturing logger (once per process) at max level Trace.
pub fn enable_log_capture() {
    let _ = log::set_logger(&LOGGER);
    log::set_max_level(log::LevelFilter::Trace);
}

/// Switch rendering of log records on this thread on/off (used by the C07 tracer, which cannot use a closure).
pub fn set_log_buffer(active: bool) {
    LOG_BUF.with(|b| *b.borrow_mut() = if active { Some(Vec::new()) } else { None });
}

/// Run `f` collecting the log records emitted on this thread.
pub fn with_logs<T>(f: impl FnOnce() -> T) -> (T, Vec<(log::Level, String)>) {
    LOG_BUF.with(|b| *b.borrow_mut() = Some(Vec::new()));
    let r = f();
    let logs = LOG_BUF.with(|b| b.borrow_mut().take()).unwrap_or_default();
    (r, logs)
}
