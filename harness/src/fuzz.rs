//! Entry point of the coverage-guided target (harness/fuzz). The fuzzer's bytes are decoded by hand
//! (a small cursor, no derive) into the SAME case types the property-based tiers use, and the SAME
//! oracles run inside the target. VERIF_FUZZ_PROP selects the property:
//!   C08 -> arbitrary requests (no panic)          C09 -> path strings        C10 -> query strings
//!   C16 -> timestamp strings on both carriers     C01/C02/C11/C12/C19 -> a byte-decoded valid plan
//!                                                  (+ mutation / header edit / fold variant / duplicate)
//! Known findings are tolerated (a campaign is not ended by a recorded shape); anything else writes a
//! replay file, prints the VIOLATION line and panics so that libFuzzer keeps the input.
//! (proptest's pass-through RNG cannot drive the strategies: every lazily built union halves the
//! remaining byte stream, and rand's rejection sampling never terminates on the zeros that follow.)

use crate::engine::{pick_idx, CaseCtx, CheckResult, Ctx, Tier};
use crate::gen::*;
use crate::model::time::{render, Instant, TsStyle};
use crate::model::verify::Carrier;
use crate::props::{self, c01, c02, c03, c04, c05, c06, c08, c09, c10, c11, c12, c15, c16, c18, c19};
use crate::types::*;
use serde::Serialize;
use std::sync::OnceLock;

pub struct Cur<'a> {
    d: &'a [u8],
    i: usize,
}

impl<'a> Cur<'a> {
    pub fn new(d: &'a [u8]) -> Self {
        Cur { d, i: 0 }
    }
    pub fn u8(&mut self) -> u8 {
        let v = self.d.get(self.i).copied().unwrap_or(0);
        self.i += 1;
        v
    }
    pub fn u16(&mut self) -> u16 {
        (self.u8() as u16) << 8 | self.u8() as u16
    }
    pub fn bool(&mut self) -> bool {
        self.u8() & 1 == 1
    }
    pub fn pick(&mut self, n: usize) -> usize {
        if n == 0 {
            0
        } else {
            self.u8() as usize % n
        }
    }
    /// length-prefixed byte string (length byte modulo max+1)
    pub fn bytes(&mut self, max: usize) -> Vec<u8> {
        let n = self.pick(max + 1);
        let mut v = Vec::with_capacity(n);
        for _ in 0..n {
            v.push(self.u8());
        }
        v
    }
    pub fn rest(&mut self) -> &'a [u8] {
        let r = if self.i < self.d.len() { &self.d[self.i..] } else { &[] };
        self.i = self.d.len();
        r
    }
}

fn decode_pairs(c: &mut Cur, max: usize) -> Vec<(B, B)> {
    const POOL: &[&[u8]] = &[b"a", b"a-", b"a.", b"a0", b"a%", b"A", b"", b"a-b", b"a=", b"a b", b"ab", b"x", b"a&", b"a+", b"X-Amz-Meta"];
    let n = c.pick(max + 1);
    (0..n)
        .map(|_| {
            let name = if c.bool() { POOL[c.pick(POOL.len())].to_vec() } else { c.bytes(5) };
            let val = if c.bool() { c.bytes(5) } else { POOL[c.pick(POOL.len())].to_vec() };
            (B(name), B(val))
        })
        .collect()
}

/// A valid signing plan decoded from bytes (mirrors gen::plan, driven by the cursor).
pub fn decode_plan(c: &mut Cur) -> Plan {
    let carrier = if c.bool() { Carrier::Query } else { Carrier::Header };
    let mut p = simple_plan(carrier);
    p.logical.method = METHODS[c.pick(METHODS.len())].to_string();
    let nseg = c.pick(4);
    p.logical.segments = (0..nseg)
        .map(|_| {
            let mut s = c.bytes(6);
            if s.is_empty() || s == b"." || s == b".." {
                s = b"s".to_vec();
            }
            B(s)
        })
        .collect();
    p.logical.trailing_slash = c.bool() && nseg > 0;
    p.logical.query = decode_pairs(c, 4);
    let nh = c.pick(4);
    for _ in 0..nh {
        let n = HEADER_POOL[c.pick(HEADER_POOL.len())].to_string();
        if p.logical.headers.iter().any(|(m, _)| *m == n) {
            continue;
        }
        let nv = 1 + c.pick(2);
        let vals: Vec<B> = (0..nv)
            .map(|_| {
                let raw = c.bytes(8);
                let v: Vec<u8> = raw.into_iter().map(|b| if b < 0x20 && b != b'\t' || b == 0x7f { b'x' } else { b }).collect();
                B(crate::model::canon::canonical_header_value(&v))
            })
            .collect();
        p.logical.headers.push((n, vals));
    }
    p.logical.body = B(c.bytes(40));
    if c.pick(4) == 0 {
        p.form = Some(decode_pairs(c, 3));
    }
    p.cfg.s3 = c.pick(4) == 0;
    p.cfg.fold = c.bool();
    p.cfg.region = REGIONS[c.pick(4)].to_string();
    p.cfg.service = SERVICES[c.pick(4)].to_string();
    p.spelling = Spelling {
        bytes: c.bytes(8),
        query_order: (0..c.pick(4)).map(|_| c.u16()).collect(),
        amp_padding: if c.bool() { c.u8() } else { 0 },
        drop_eq: if c.bool() { c.u8() } else { 0 },
        header_case: c.bytes(4),
        header_pad: c.bytes(4),
        header_order: (0..c.pick(4)).map(|_| c.u16()).collect(),
        path_noise: if c.pick(4) == 0 { c.u8() } else { 0 },
        version: [11u8, 10, 2, 3, 9][c.pick(5)],
        plus_literal: false,
        absolute_form: if c.pick(8) == 0 { 1 + c.pick(7) as u8 } else { 0 },
        query_tail: if c.pick(4) == 0 { c.u8() & 3 } else { 0 },
    };
    let style = TsStyle {
        extended: c.bool(),
        offset_min: match c.pick(5) {
            0 | 1 => None,
            2 => Some(0),
            3 => Some([60, -60, 90, -90, 330, -570, 840, -840, 1, -1][c.pick(10)]),
            _ => Some((c.u16() % 1681) as i32 - 840),
        },
        frac_digits: if c.bool() { 0 } else { c.pick(13) as u8 },
        comma: c.bool(),
        extra: c.pick(10) as u8,
    };
    let base = Instant::from_civil(2000 + c.pick(31) as i64, 1 + c.pick(12) as u32, 1 + c.pick(28) as u32, c.pick(24) as u32, c.pick(60) as u32, c.pick(60) as u32, 0);
    let inst = Instant { secs: base.secs, nanos: if c.bool() { 0 } else { (c.u16() as u32) * 15_258 } };
    const W: i128 = 900_000_000_000;
    let delta: i128 = match c.pick(6) {
        0 => 0,
        1 => W,
        2 => -W,
        3 => W - c.u16() as i128 * 30_000,
        4 => -W + c.u16() as i128 * 30_000,
        _ => (c.u16() as i128 - 32768) * 27_000_000,
    };
    p = p.with_time(inst, style);
    p.cfg.now = p.instant.add_nanos(-delta.clamp(-W, W));
    if c.pick(3) == 0 {
        let t: String = c.bytes(12).into_iter().map(|b| (b"ABCabc019/+="[b as usize % 12]) as char).collect();
        p.spec.token = Some(t.clone());
        p.entry.token = Some(t);
    }
    let sec: String = c.bytes(40).into_iter().map(|b| (0x21 + b % 0x5e) as char).collect();
    p.spec.secret = sec.clone();
    p.entry.secret = sec;
    p.spec.param_order = [[0, 1, 2], [0, 2, 1], [1, 0, 2], [1, 2, 0], [2, 0, 1], [2, 1, 0]][c.pick(6)];
    p.spec.sep = c.pick(4) as u8;
    p.spec.loose_escapes = c.bool();
    p.spec.auth_first = c.bool();
    let mut signed: Vec<String> = vec!["host".into()];
    if carrier == Carrier::Header {
        signed.push("x-amz-date".into());
        if p.spec.token.is_some() && c.bool() {
            signed.push("x-amz-security-token".into());
        }
    }
    for (n, _) in p.logical.headers.iter().skip(1) {
        if c.bool() {
            signed.push(n.clone());
        }
    }
    if p.form.is_some() && c.bool() {
        signed.push("content-type".into());
    }
    signed.sort();
    signed.dedup();
    p.spec.signed_headers = signed;
    p
}

fn decode_mutation(c: &mut Cur) -> c01::Mutation {
    use c01::Mutation::*;
    match c.pick(34) {
        31 => TimestampLeapSecond(c.bool()),
        32 => HostPort(c.u8()),
        33 => HeaderSuffix(c.u16(), c.u8()),
        0 => Method(c.u16()),
        1 => UriChar(c.u16(), c.u16()),
        2 => UriInsert(c.u16(), c.u16()),
        3 => UriDelete(c.u16()),
        4 => ToggleTrailingSlash,
        5 => match c.pick(3) { 0 => PathSpaceToPlus, 1 => PathSlashEscape(c.u16()), _ => MethodTunnel(c.u8()) },
        6 => AppendParam(c.u16()),
        7 => DuplicateParam(c.u16()),
        8 => RemoveParam(c.u16()),
        9 => HeaderByte(c.u16(), c.u16(), 0x21 + c.u8() % 0x5e),
        10 => HeaderCase(c.u16(), c.u16()),
        11 => HeaderAddValue(c.u16()),
        12 => HeaderRemove(c.u16()),
        13 => HeaderSwapValues(c.u16()),
        14 => BodyFlip(c.u16()),
        15 => if c.bool() { BodyAppend(c.u8()) } else { BodyPrefix(c.u8()) },
        16 => BodyTruncate(c.u16()),
        17 => Timestamp((c.u8() as i8).max(-120).min(120)),
        18 => Credential(c.u8() % 5, c.u16()),
        19 => ProviderSecret(c.u16()),
        20 => ProviderDerive(c.u8() % 3),
        21 => ServerRegion(c.u16()),
        22 => ServerService(c.u16()),
        23 => FlipOption(c.bool()),
        24 => SigChar(c.u8() % 64, c.u8() % 16),
        25 => SigTruncate(c.u8() % 64),
        26 => SigExtend(c.u8() % 16),
        27 => SigEmpty,
        28 => SigZero,
        29 => SigUpper,
        _ => {
            let mut r = [0u8; 32];
            for b in r.iter_mut() {
                *b = c.u8();
            }
            SigRandom(r)
        }
    }
}

fn decode_hedit(c: &mut Cur) -> c11::HEdit {
    use c11::HEdit::*;
    match c.pick(13) {
        0 => ValueByte(c.u16(), c.u16(), 0x21u8.saturating_add(c.u8() % 0xde)),
        1 => OuterSpaces(c.u16(), c.u8() % 4, c.u8() % 4),
        2 => WidenInnerSpace(c.u16(), c.u16(), 1 + c.u8() % 3),
        3 => InsertSpace(c.u16(), c.u16()),
        4 => SpaceToTab(c.u16(), c.u16()),
        5 => AddValue(c.u16(), c.bool()),
        6 => RemoveValue(c.u16()),
        7 => SwapValues(c.u16()),
        8 => ValueCase(c.u16(), c.u16()),
        9 => NameCase(c.u16(), c.u8()),
        10 => Reorder((0..1 + c.pick(6)).map(|_| c.u16()).collect()),
        11 => InsertUnsigned(c.u16(), c.u16()),
        _ => DuplicateHeader(c.u16()),
    }
}

struct State {
    ctx: Ctx,
    id: String,
}

fn state() -> &'static State {
    static S: OnceLock<State> = OnceLock::new();
    S.get_or_init(|| {
        crate::exec::install_quiet_panic_hook();
        let id = std::env::var("VERIF_FUZZ_PROP").unwrap_or_else(|_| "C08".to_string());
        let reg = props::registry();
        let p = reg.iter().find(|p| p.id == id).unwrap_or_else(|| panic!("unknown property {}", id));
        let strict = std::env::var("VERIF_FUZZ_STRICT").map(|v| v == "1").unwrap_or(false);
        State { ctx: Ctx::new(p.id, Tier::Thorough, 0, strict), id }
    })
}

fn settle<C: Serialize>(st: &State, sub: &str, case: &C, r: CheckResult) {
    if let Err(f) = r {
        if f.sig == "HARNESS" || st.ctx.known_hit(&f) {
            return;
        }
        st.ctx.violation(sub, case, &f);
        let _ = std::panic::take_hook();
        panic!("VIOLATION property={} check={} signature={} : {}", st.ctx.id, sub, f.sig, f.msg);
    }
}

pub fn one(data: &[u8]) {
    let st = state();
    if data.is_empty() {
        return;
    }
    let mut c = Cur::new(data);
    let mut cc = CaseCtx::default();
    match st.id.as_str() {
        "C09" => {
            let s3 = c.bool();
            let path = String::from_utf8_lossy(c.rest()).to_string();
            let case = c09::PathCase { path, s3 };
            let r = c09::check_path(&case, &mut cc);
            settle(st, "random-paths", &case, r);
        }
        "C10" => {
            let case = c10::RawQuery { query: String::from_utf8_lossy(c.rest()).to_string() };
            let r = c10::check_raw(&case, &mut cc);
            settle(st, "raw", &case, r);
        }
        "C16" => {
            let q = c.bool();
            let pad = c.u8() % 16;
            let case = c16::TsCase { text: String::from_utf8_lossy(c.rest()).to_string(), query_carrier: q, pad };
            let r = c16::check_ts(&case, &mut cc);
            settle(st, "mutated", &case, r);
        }
        "C08" => {
            let nh = c.pick(8);
            let mut headers = Vec::new();
            const NAMES: &[&str] = &["authorization", "x-amz-date", "date", "x-amz-security-token", "content-type", "host", "x-amz-meta-x", "etag"];
            for _ in 0..nh {
                headers.push((NAMES[c.pick(NAMES.len())].to_string(), B(c.bytes(60))));
            }
            let cfg = ServerConfig {
                region: REGIONS[c.pick(REGIONS.len())].to_string(),
                service: SERVICES[c.pick(SERVICES.len())].to_string(),
                now: Instant { secs: 1_440_938_160 + (c.u16() as i64 - 32768) * 60, nanos: 0 },
                s3: c.bool(),
                fold: c.bool(),
                reqs: Reqs { always: if c.bool() { vec!["Content-Type".into()] } else { vec![] }, if_in_request: vec![], prefixes: if c.bool() { vec!["x-amz-".into()] } else { vec![] }, route: c.u8() % 5 },
            };
            let method = METHODS[c.pick(METHODS.len())].to_string();
            let body = B(c.bytes(120));
            let uri = String::from_utf8_lossy(c.rest()).to_string();
            let case = c08::AnyCase {
                case: Case {
                    req: WireRequest { method, uri: if uri.is_empty() { "/".into() } else { uri }, version: 11, headers, body },
                    cfg,
                    prov: ProviderScript { keys: vec![KeyEntry { access_key: "AKIDEXAMPLE".into(), token: None, secret: "s".into(), derive_as: None, principal: PrincipalSpec::Empty, session: vec![] }], ..ProviderScript::default() },
                },
            };
            let r = c08::check_any(&case, &mut cc);
            settle(st, "requests", &case, r);
        }
        "C01" => {
            let plan = decode_plan(&mut c);
            let mutation = decode_mutation(&mut c);
            let case = c01::Mutated { plan, mutation };
            let r = c01::check_mutated(&case, &mut cc);
            settle(st, "mutate", &case, r);
        }
        "C02" => {
            let plan = decode_plan(&mut c);
            let r = c02::check_plan(&plan, &mut cc);
            settle(st, "valid", &plan, r);
        }
        "C11" => {
            let mut plan = decode_plan(&mut c);
            plan.cfg.fold = false;
            plan.cfg.s3 = false;
            plan.form = None;
            let edit = decode_hedit(&mut c);
            let case = c11::HeaderCase { plan, edit };
            let r = c11::check_edit(&case, &mut cc);
            settle(st, "header-edit", &case, r);
        }
        "C12" => {
            let mut plan = decode_plan(&mut c);
            let mut form = decode_pairs(&mut c, 3);
            if c.bool() {
                if let Some((n, _)) = plan.logical.query.first().cloned() {
                    form.push((n, B::from("from-body")));
                }
            }
            plan.form = Some(form);
            plan.ct_override = Some(c12::CONTENT_TYPES[c.pick(c12::CONTENT_TYPES.len())].to_string());
            plan.logical.headers.retain(|(n, _)| n != "content-type");
            plan.spec.signed_headers.retain(|h| h != "content-type");
            let raw_body = if c.pick(4) == 0 { Some(B(c.bytes(30))) } else { None };
            let flip = if c.pick(4) == 0 { Some(c.u16()) } else { None };
            let case = c12::FoldCase { plan, client_folds: c.bool(), server_folds: c.bool(), raw_body, flip };
            let r = c12::check_fold(&case, &mut cc);
            settle(st, "fold", &case, r);
        }
        "C03" => {
            let plan = decode_plan(&mut c);
            let n = [4usize, 4, 4, 3, 5, 0, 1, 7][c.pick(8)];
            let pool: [String; 8] = [plan.instant.date8(), plan.cfg.region.clone(), plan.cfg.service.clone(), "aws4_request".into(), String::new(), "us-east-1".into(), plan.cfg.now.date8(), "aws4_request ".into()];
            let mut parts: Vec<String> = Vec::new();
            for i in 0..n {
                let mut v = if c.pick(3) == 0 { pool[c.pick(8)].clone() } else { pool[i.min(3)].clone() };
                match c.pick(6) {
                    0 => {
                        v.pop();
                    }
                    1 => v.push((b'a' + c.u8() % 26) as char),
                    2 => v = v.to_ascii_uppercase(),
                    3 => v.insert(0, ' '),
                    _ => {}
                }
                parts.push(v);
            }
            let case = c03::ScopeCase { plan, parts, provider_follows_credential: c.bool() };
            let r = c03::check_scope(&case, &mut cc);
            settle(st, "scope-e2e", &case, r);
        }
        "C04" => {
            let mut plan = decode_plan(&mut c);
            const W: i128 = 900_000_000_000;
            let delta: i128 = match c.pick(5) {
                0 => W + (c.u16() as i128 - 32768) * 100_000,
                1 => -W + (c.u16() as i128 - 32768) * 100_000,
                2 => (c.u16() as i128 - 32768) * 40_000_000,
                3 => [W, -W, W + 1, -W - 1, W - 1, -W + 1][c.pick(6)],
                _ => (c.u16() as i128 - 32768) * 1_000_000_000,
            };
            plan.cfg.now = plan.instant.add_nanos(-delta);
            if (1..=9999).contains(&plan.cfg.now.year()) {
                let case = c04::WindowCase { plan, delta, provider_ready: (c.u8() % 4, if c.bool() { Some(c.u8() % 14) } else { None }) };
                let r = c04::check_window(&case, &mut cc);
                settle(st, "random", &case, r);
            }
        }
        "C05" => {
            let mut plan = decode_plan(&mut c);
            const N: &[&str] = &["content-type", "etag", "x-amz-meta-a", "x-custom", "accept", "x-a"];
            const P: &[&str] = &["x-amz-meta-", "x-amz-", "x-custom", "x-", "my-header", "e"];
            let mut reqs = Reqs { route: c.u8() % 5, ..Reqs::default() };
            for _ in 0..c.pick(3) {
                reqs.always.push(spell_header_name(N[c.pick(N.len())], c.u8()));
            }
            for _ in 0..c.pick(3) {
                reqs.if_in_request.push(spell_header_name(N[c.pick(N.len())], c.u8()));
            }
            for _ in 0..c.pick(3) {
                reqs.prefixes.push(spell_header_name(P[c.pick(P.len())], c.u8()));
            }
            plan.cfg.reqs = reqs;
            // sign everything present, then drop generated entries
            let mut signed: Vec<String> = plan.logical.headers.iter().map(|(n, _)| n.clone()).collect();
            if plan.spec.carrier == Carrier::Header {
                signed.push("x-amz-date".into());
                if plan.spec.token.is_some() {
                    signed.push("x-amz-security-token".into());
                }
            }
            signed.sort();
            signed.dedup();
            plan.spec.signed_headers = signed;
            let drop = (0..c.pick(3)).map(|_| c.u16()).collect();
            let case = c05::ReqCase { plan, drop, remove_from_request: c.bool() };
            let r = c05::check_reqs(&case, &mut cc);
            settle(st, "requirements-e2e", &case, r);
        }
        "C15" => {
            let mut plan = decode_plan(&mut c);
            if c.bool() {
                plan.entry.session = vec![("k".into(), ["@null", "true", "12", "v", ""][c.pick(5)].to_string())];
            }
            let r = c15::check_roundtrip(&plan, &mut cc);
            settle(st, "roundtrip", &plan, r);
        }
        "C19" => {
            let plan = decode_plan(&mut c);
            let k = c.u16();
            let mut case = c19::make_case(plan, k, c.bool(), c.bool(), c.bool(), (c.u16() % 1600) as i16 - 800);
            case.filler = c.u16() % 300;
            let r = c19::check_dup(&case, &mut cc);
            settle(st, "duplicates", &case, r);
        }
        "C18" => {
            let plan = decode_plan(&mut c);
            let n = 1 + c.pick(6);
            let steps = (0..n).map(|_| (c.u8() % 19, c.u16(), c.bool())).collect();
            let case = c18::Siblings { plan, steps };
            let r = c18::check_siblings(&case, &mut cc);
            settle(st, "siblings-in-sequence", &case, r);
        }
        "C06" => {
            let text = |c: &mut Cur| -> String {
                match c.pick(4) {
                    0 => REGIONS[c.pick(REGIONS.len())].to_string(),
                    1 => SERVICES[c.pick(SERVICES.len())].to_string(),
                    _ => String::from_utf8_lossy(&c.bytes(10)).to_string(),
                }
            };
            let mut secret = String::from_utf8_lossy(&c.bytes(40)).to_string();
            while secret.len() > 40 {
                secret.pop();
            }
            let (y, m, d) = (1 + c.u16() as i32 % 9999, 1 + c.pick(12) as u32, 1 + c.pick(28) as u32);
            let (region, service) = (text(&mut c), text(&mut c));
            let n = 1 + c.pick(5);
            let steps = (0..n).map(|_| (c.u8() % 12, text(&mut c), c.u16())).collect();
            let case = c06::DeriveSeq { first: c06::Derive { trace: false, secret, y, m, d, region, service }, steps };
            let r = c06::check_derive_seq(&case, &mut cc);
            settle(st, "consecutive-derivations", &case, r);
        }
        _ => {}
    }
    let _ = (render, pick_idx);
}
