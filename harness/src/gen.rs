//! proptest strategies: logical requests, wire spellings, server configurations, signing plans.

use crate::engine::pick_idx;
use crate::model::canon::{is_unreserved, pct_encode};
use crate::model::sign::{sign, SignSpec, Signed};
use crate::model::time::{days_in_month, render, Instant, TsStyle};
use crate::model::verify::Carrier;
use crate::types::*;
use proptest::collection::vec;
use proptest::prelude::*;
use serde::{Deserialize, Serialize};
use std::sync::OnceLock;

// ---------------------------------------------------------------------------------------------
// which bytes the `http` crate admits literally

pub struct Lit {
    pub path: [bool; 256],
    pub query: [bool; 256],
}

pub fn lit() -> &'static Lit {
    static L: OnceLock<Lit> = OnceLock::new();
    L.get_or_init(|| {
        let mut l = Lit { path: [false; 256], query: [false; 256] };
        for b in 0u16..256 {
            let b = b as u8;
            if b >= 0x80 || b == b'?' || b == b'#' || b == b'/' {
                continue;
            }
            let p = format!("/a{}b?x=1", b as char);
            if let Ok(u) = http::Uri::try_from(p.as_str()) {
                if u.path() == format!("/a{}b", b as char) && u.query() == Some("x=1") {
                    l.path[b as usize] = true;
                }
            }
        }
        for b in 0u16..256 {
            let b = b as u8;
            if b >= 0x80 || b == b'#' {
                continue;
            }
            let p = format!("/p?a{}b", b as char);
            if let Ok(u) = http::Uri::try_from(p.as_str()) {
                if u.path() == "/p" && u.query() == Some(format!("a{}b", b as char).as_str()) {
                    l.query[b as usize] = true;
                }
            }
        }
        l
    })
}

// ---------------------------------------------------------------------------------------------
// atoms

const UNRESERVED: &[u8] = b"abcdefghijklmnopqrstuvwxyzABCDEFGHIJKLMNOPQRSTUVWXYZ0123456789-._~";
const PUNCT: &[u8] = b" !\"#$%&'()*+,/:;<=>?@[\\]^`{|}";

/// one byte, biased to unreserved characters but covering all 256 values
pub fn any_byte() -> BoxedStrategy<u8> {
    prop_oneof![
        12 => any::<u16>().prop_map(|x| UNRESERVED[pick_idx(x, UNRESERVED.len())]),
        4 => any::<u16>().prop_map(|x| PUNCT[pick_idx(x, PUNCT.len())]),
        3 => any::<u8>(),
        1 => Just(b'%'),
        1 => Just(b'+'),
        1 => Just(b' '),
    ]
    .boxed()
}

pub fn byte_string(max: usize) -> BoxedStrategy<Vec<u8>> {
    vec(any_byte(), 0..=max).boxed()
}

/// Spelling choices for one byte: 0 literal if admissible, 1 %HH, 2 %hh, 3 mixed case
#[derive(Clone, Copy, Debug, PartialEq, Eq, Serialize, Deserialize)]
pub struct Sp(pub u8);

fn esc(b: u8, style: u8) -> String {
    match style & 3 {
        1 | 0 => format!("%{:02X}", b),
        2 => format!("%{:02x}", b),
        _ => {
            let s = format!("{:02X}", b);
            let c: Vec<char> = s.chars().collect();
            format!("%{}{}", c[0].to_ascii_lowercase(), c[1])
        }
    }
}

/// Spell a decoded path segment for the wire. `choices` is consumed cyclically.
pub fn spell_path_segment(seg: &[u8], choices: &[u8], plus_literal: bool) -> String {
    let l = lit();
    let mut out = String::new();
    for (i, &b) in seg.iter().enumerate() {
        let c = if choices.is_empty() { 0 } else { choices[i % choices.len()] };
        let can_lit = l.path[b as usize] && b != b'%' && (b != b'+' || plus_literal);
        let want_lit = if is_unreserved(b) { c % 8 != 7 } else { c % 2 == 0 };
        if can_lit && want_lit {
            out.push(b as char);
        } else {
            out.push_str(&esc(b, c >> 3));
        }
    }
    out
}

/// Spell a decoded query name or value for the wire.
pub fn spell_query_element(el: &[u8], choices: &[u8], is_value: bool) -> String {
    let l = lit();
    let mut out = String::new();
    for (i, &b) in el.iter().enumerate() {
        let c = if choices.is_empty() { 0 } else { choices[i % choices.len()] };
        if b == b' ' {
            if c % 2 == 0 {
                out.push('+');
            } else {
                out.push_str(&esc(b, c >> 3));
            }
            continue;
        }
        let structural = b == b'&' || b == b'+' || b == b'%' || b == b'#' || (b == b'=' && !is_value);
        let can_lit = l.query[b as usize] && !structural;
        let want_lit = if is_unreserved(b) { c % 8 != 7 } else { c % 2 == 0 };
        if can_lit && want_lit {
            out.push(b as char);
        } else {
            out.push_str(&esc(b, c >> 3));
        }
    }
    out
}

// ---------------------------------------------------------------------------------------------
// logical request

#[derive(Clone, Debug, PartialEq, Eq, Serialize, Deserialize)]
pub struct Logical {
    pub method: String,
    /// decoded path segments (no empty / dot segments for standard-mode use)
    pub segments: Vec<B>,
    pub trailing_slash: bool,
    pub query: Vec<(B, B)>,
    /// (lower-case name, canonical values in arrival order); `host` is always first
    pub headers: Vec<(String, Vec<B>)>,
    pub body: B,
}

pub const METHODS: &[&str] =
    &["GET", "POST", "PUT", "DELETE", "HEAD", "PATCH", "OPTIONS", "PROPFIND", "M-SEARCH", "get", "X"];

pub fn method() -> BoxedStrategy<String> {
    prop_oneof![
        6 => any::<u16>().prop_map(|x| METHODS[pick_idx(x, 3)].to_string()),
        2 => any::<u16>().prop_map(|x| METHODS[pick_idx(x, METHODS.len())].to_string()),
    ]
    .boxed()
}

pub fn segment() -> BoxedStrategy<Vec<u8>> {
    prop_oneof![
        8 => vec(any_byte(), 1..=8),
        1 => Just(b"a".to_vec()),
        1 => Just(b"..a".to_vec()),
        1 => Just(b"a/b".to_vec()),
        1 => Just(b"...".to_vec()),
    ]
    .prop_filter("dot segment", |s| s != b"." && s != b"..")
    .boxed()
}

/// Parameter names built to collide: shared prefixes followed by bytes sorting below and above '='.
pub const AMZ_AUTH_NAMES: &[&str] = &["X-Amz-Algorithm", "X-Amz-Credential", "X-Amz-Date", "X-Amz-SignedHeaders", "X-Amz-Security-Token", "X-Amz-Signature"];

pub fn clustered_name() -> BoxedStrategy<Vec<u8>> {
    const POOL: &[&[u8]] = &[
        b"a", b"a-", b"a.", b"a0", b"a%", b"A", b"", b"a-b", b"a1", b"a!", b"a=", b"a b", b"ab", b"a~", b"b", b"a\x00",
        b"a\xff", b"a&", b"a+", b"a/", b"a;", b"Action", b"Version", b"X-Amz-Meta", b"x", b"a<", b"a>", b"a?",
        // authentication parameter names: ordinary application parameters when the Authorization header is the carrier
        // (plan() removes them again for the query carrier, where they would be the carrier's own parameters)
        b"X-Amz-Date", b"X-Amz-Credential", b"X-Amz-SignedHeaders", b"X-Amz-Security-Token", b"X-Amz-Signature", b"X-Amz-Expires",
    ];
    prop_oneof![
        6 => any::<u16>().prop_map(|x| POOL[pick_idx(x, POOL.len())].to_vec()),
        2 => byte_string(6),
    ]
    .boxed()
}

pub fn query_pairs(max: usize) -> BoxedStrategy<Vec<(B, B)>> {
    let small = vec((clustered_name(), prop_oneof![3 => byte_string(6), 1 => Just(vec![]), 1 => clustered_name()]), 0..=max)
        .prop_map(|v| v.into_iter().map(|(n, v)| (B(n), B(v))).collect::<Vec<(B, B)>>());
    if max < 4 {
        return small.boxed();
    }
    // occasionally MANY parameters, few distinct names, differing values (sort stability, map growth)
    let many = (21usize..90, 1usize..12, any::<u16>()).prop_map(|(n, names, salt)| {
        (0..n)
            .map(|i| {
                let k = (i * 7 + salt as usize) % names;
                (B(format!("n{:02}", k).into_bytes()), B(format!("v{:03}", (i * 31 + salt as usize) % 997).into_bytes()))
            })
            .collect::<Vec<(B, B)>>()
    });
    prop_oneof![30 => small, 1 => many].boxed()
}

pub const HEADER_POOL: &[&str] = &[
    "x-amz-meta-a", "x-amz-meta-b", "x-amz-content-sha256", "x-amz-target", "etag", "accept", "content-md5", "range",
    "x-custom", "x-custom-2", "user-agent", "x-amzn-trace-id", "cache-control", "x-a", "my-header1", "my-header2",
    "x-amz-acl", "if-match", "date", "x-custom-source", "x-custom-source-range", "content-length", "content-type", "x_under", "x.dot", "x-a-",
    // headers that describe the client or the route a request took (what policy condition keys are derived from)
    "referer", "origin", "x-forwarded-for", "x-forwarded-proto", "x-amz-user-agent", "cookie", "expect", "via", "forwarded", "x-real-ip", "accept-encoding",
    "if-none-match", "x-amz-source-arn", "x-amz-source-account",
];

/// canonical header value: visible bytes, 0x80-0xFF, tabs, single inner spaces; no outer spaces, no space runs
pub fn header_value() -> BoxedStrategy<Vec<u8>> {
    let b = prop_oneof![
        10 => 0x21u8..=0x7e,
        2 => Just(b' '),
        1 => 0x80u8..=0xff,
        1 => Just(b'\t'),
        1 => Just(b','),
    ];
    vec(b, 0..=12)
        .prop_map(|v| {
            let mut out: Vec<u8> = Vec::new();
            for c in v {
                if c == b' ' && (out.is_empty() || out.last() == Some(&b' ')) {
                    continue;
                }
                out.push(c);
            }
            while out.last() == Some(&b' ') {
                out.pop();
            }
            out
        })
        .boxed()
}

pub const PAYLOAD_HASH_PLACEHOLDER: &[u8] = b"@payload-sha256";

pub fn extra_headers(max: usize) -> BoxedStrategy<Vec<(String, Vec<B>)>> {
    vec((any::<u16>(), vec(header_value(), 1..=3)), 0..=max)
        .prop_map(|v| {
            let mut out: Vec<(String, Vec<B>)> = Vec::new();
            for (x, vals) in v {
                let n = HEADER_POOL[pick_idx(x, HEADER_POOL.len())].to_string();
                if out.iter().any(|(m, _)| *m == n) {
                    continue;
                }
                if n == "x-amz-content-sha256" && x % 3 != 0 {
                    // what S3 clients really send: the payload hash (filled in once the body is final) or the literal marker
                    let v = if x % 3 == 1 { PAYLOAD_HASH_PLACEHOLDER.to_vec() } else { b"UNSIGNED-PAYLOAD".to_vec() };
                    out.push((n, vec![B(v)]));
                    continue;
                }
                out.push((n, vals.into_iter().map(B).collect()));
            }
            out
        })
        .boxed()
}

pub fn body_bytes(max_class: u8) -> BoxedStrategy<Vec<u8>> {
    match max_class {
        0 => prop_oneof![3 => Just(vec![]), 3 => vec(any::<u8>(), 0..=48)].boxed(),
        1 => prop_oneof![
            6 => Just(vec![]),
            8 => vec(any::<u8>(), 0..=48),
            2 => vec(any::<u8>(), 0..=1500),
            1 => (any::<u8>(), 54usize..=66).prop_map(|(b, n)| vec![b; n]),
            1 => (any::<u8>(), prop_oneof![Just(4095usize), Just(4096), Just(4097), Just(8192), Just(8193), 2000usize..12_000]).prop_map(|(b, n)| (0..n).map(|i| b.wrapping_add((i % 253) as u8)).collect()),
        ]
        .boxed(),
        _ => prop_oneof![
            3 => Just(vec![]),
            4 => vec(any::<u8>(), 0..=48),
            1 => vec(any::<u8>(), 0..=1500),
            1 => (any::<u8>(), 60_000usize..140_000).prop_map(|(b, n)| (0..n).map(|i| b.wrapping_add((i % 251) as u8)).collect()),
        ]
        .boxed(),
    }
}

pub fn host_value() -> BoxedStrategy<Vec<u8>> {
    prop_oneof![
        4 => Just(b"example.amazonaws.com".to_vec()),
        1 => Just(b"localhost:8080".to_vec()),
        1 => Just(b"h".to_vec()),
        1 => Just(b"xn--bcher-kva.example".to_vec()),
        1 => Just(b"example.amazonaws.com:443".to_vec()),
        1 => Just(b"h:80".to_vec()),
    ]
    .boxed()
}

#[derive(Clone, Copy, Debug)]
pub struct LogicalOpts {
    pub max_segments: usize,
    pub max_query: usize,
    pub max_headers: usize,
    pub body_class: u8,
    /// allow empty and dot segments (S3-mode paths)
    pub raw_segments: bool,
}

impl Default for LogicalOpts {
    fn default() -> Self {
        LogicalOpts { max_segments: 4, max_query: 5, max_headers: 4, body_class: 1, raw_segments: false }
    }
}

pub fn logical(o: LogicalOpts) -> BoxedStrategy<Logical> {
    let seg = if o.raw_segments {
        prop_oneof![6 => segment(), 1 => Just(vec![]), 1 => Just(b".".to_vec()), 1 => Just(b"..".to_vec())].boxed()
    } else {
        segment()
    };
    (
        method(),
        vec(seg, 0..=o.max_segments),
        any::<bool>(),
        query_pairs(o.max_query),
        host_value(),
        extra_headers(o.max_headers),
        body_bytes(o.body_class),
    )
        .prop_map(|(method, segs, trailing, query, host, extra, body)| {
            let mut headers = vec![("host".to_string(), vec![B(host)])];
            headers.extend(extra);
            Logical {
                method,
                trailing_slash: trailing && !segs.is_empty(),
                segments: segs.into_iter().map(B).collect(),
                query,
                headers,
                body: B(body),
            }
        })
        .boxed()
}

// ---------------------------------------------------------------------------------------------
// wire spelling

#[derive(Clone, Debug, PartialEq, Eq, Serialize, Deserialize, Default)]
pub struct Spelling {
    /// per-byte spelling choices (cycled)
    pub bytes: Vec<u8>,
    /// permutation seed for the query parameters
    pub query_order: Vec<u16>,
    /// insert an empty '&&' piece before parameter i (bit i)
    pub amp_padding: u8,
    /// spell `name=` as `name` when the value is empty (bit i)
    pub drop_eq: u8,
    /// header-name case pattern and outer/inner space padding per header value
    pub header_case: Vec<u8>,
    pub header_pad: Vec<u8>,
    /// interleave order of differently named headers
    pub header_order: Vec<u16>,
    /// standard mode only: redundant `//` and `/./` insertions (bit i before segment i); 0 = none
    pub path_noise: u8,
    pub version: u8,
    /// spell a '+' of a path segment literally (only the known-finding probes do; everything else escapes it)
    #[serde(default)]
    pub plus_literal: bool,
    /// request target in absolute form (scheme://authority prefix): 0 = origin form
    #[serde(default)]
    pub absolute_form: u8,
    /// bit 0: trailing '&' after the last parameter; bit 1: a bare '?' when there are no parameters
    #[serde(default)]
    pub query_tail: u8,
}

pub fn spelling() -> BoxedStrategy<Spelling> {
    (
        vec(any::<u8>(), 0..12),
        vec(any::<u16>(), 0..8),
        prop_oneof![3 => Just(0u8), 1 => any::<u8>()],
        prop_oneof![3 => Just(0u8), 1 => any::<u8>()],
        vec(any::<u8>(), 0..6),
        vec(any::<u8>(), 0..6),
        vec(any::<u16>(), 0..8),
        prop_oneof![4 => Just(0u8), 1 => any::<u8>()],
        prop_oneof![6 => Just(11u8), 1 => Just(10u8), 1 => Just(2u8), 1 => Just(3u8), 1 => Just(9u8)],
    )
        .prop_map(|(bytes, query_order, amp_padding, drop_eq, header_case, header_pad, header_order, path_noise, version)| {
            Spelling { bytes, query_order, amp_padding, drop_eq, header_case, header_pad, header_order, path_noise, version, plus_literal: false, absolute_form: if path_noise % 11 == 3 { 1 + path_noise % 3 } else if path_noise % 11 == 5 { 4 + path_noise % 4 } else { 0 }, query_tail: if amp_padding % 5 == 1 { amp_padding >> 5 } else { 0 } }
        })
        .boxed()
}

pub fn permute<T: Clone>(items: &[T], keys: &[u16]) -> Vec<T> {
    // stable sort by a key derived from `keys`; with empty keys the order is unchanged
    let mut idx: Vec<(u32, usize)> = items
        .iter()
        .enumerate()
        .map(|(i, _)| {
            let k = if keys.is_empty() { 0 } else { keys[i % keys.len()] as u32 };
            (if keys.is_empty() { i as u32 } else { k.wrapping_mul(31).wrapping_add(i as u32 * 7) % 997 }, i)
        })
        .collect();
    idx.sort();
    idx.into_iter().map(|(_, i)| items[i].clone()).collect()
}

pub fn spell_header_name(name: &str, pat: u8) -> String {
    match pat % 4 {
        0 => name.to_string(),
        1 => name.to_ascii_uppercase(),
        2 => {
            // Title-Case
            let mut up = true;
            name.chars()
                .map(|c| {
                    let r = if up { c.to_ascii_uppercase() } else { c };
                    up = c == '-';
                    r
                })
                .collect()
        }
        _ => name
            .chars()
            .enumerate()
            .map(|(i, c)| if (i + pat as usize) % 2 == 0 { c.to_ascii_uppercase() } else { c })
            .collect(),
    }
}

pub fn pad_header_value(v: &[u8], pad: u8) -> Vec<u8> {
    let mut out = Vec::new();
    for _ in 0..(pad & 3) {
        out.push(b' ');
    }
    for &c in v {
        out.push(c);
        if c == b' ' {
            for _ in 0..((pad >> 4) & 3) {
                out.push(b' ');
            }
        }
    }
    for _ in 0..((pad >> 2) & 3) {
        out.push(b' ');
    }
    out
}

/// Render a logical request for the wire (no authentication material yet).
pub fn spell(l: &Logical, sp: &Spelling, s3: bool) -> WireRequest {
    let ch = &sp.bytes;
    let mut path = String::new();
    for (i, seg) in l.segments.iter().enumerate() {
        if !s3 && sp.path_noise != 0 && i < 8 && (sp.path_noise >> i) & 1 == 1 {
            path.push_str(if i % 2 == 0 { "/" } else { "/." });
        }
        path.push('/');
        let rot: Vec<u8> = if ch.is_empty() { vec![] } else { ch.iter().cycle().skip(i).take(ch.len()).cloned().collect() };
        path.push_str(&spell_path_segment(&seg.0, &rot, sp.plus_literal));
    }
    if l.segments.is_empty() || l.trailing_slash {
        path.push('/');
    }
    let q = permute(&l.query, &sp.query_order);
    let mut qs = String::new();
    for (i, (n, v)) in q.iter().enumerate() {
        if i > 0 {
            qs.push('&');
        }
        if i < 8 && (sp.amp_padding >> i) & 1 == 1 {
            qs.push('&');
        }
        let rot: Vec<u8> = if ch.is_empty() { vec![] } else { ch.iter().cycle().skip(i + 3).take(ch.len()).cloned().collect() };
        let name = spell_query_element(&n.0, &rot, false);
        // a completely empty piece would be skipped by the parser: keep '=' when the name is empty
        let drop = i < 8 && (sp.drop_eq >> i) & 1 == 1 && v.0.is_empty() && !name.is_empty();
        qs.push_str(&name);
        if !drop {
            qs.push('=');
            qs.push_str(&spell_query_element(&v.0, &rot, true));
        }
    }
    if !q.is_empty() && sp.query_tail & 1 == 1 {
        qs.push('&');
    }
    let uri = if q.is_empty() {
        if sp.query_tail & 2 == 2 {
            format!("{}?", path)
        } else {
            path
        }
    } else {
        format!("{}?{}", path, qs)
    };
    let uri = match sp.absolute_form {
        0 => uri,
        1 => format!("http://example.amazonaws.com{}", uri),
        2 => format!("https://h.example:8443{}", uri),
        3 => format!("HTTP://Example.COM{}", uri),
        // authority form (the target of a CONNECT): possible only where there is neither a path nor a query
        _ if uri == "/" => ["example.amazonaws.com:443", "localhost", "10.0.0.1:8080", "h.example:80"][(sp.absolute_form as usize - 4) % 4].to_string(),
        _ => uri,
    };
    // headers: values of one name keep their order; different names are interleaved
    let mut flat: Vec<(usize, String, B)> = Vec::new();
    for (hi, (n, vals)) in l.headers.iter().enumerate() {
        for (vi, v) in vals.iter().enumerate() {
            let pat = if sp.header_case.is_empty() { 0 } else { sp.header_case[(hi + vi) % sp.header_case.len()] };
            let pad = if sp.header_pad.is_empty() { 0 } else { sp.header_pad[(hi * 3 + vi) % sp.header_pad.len()] };
            flat.push((hi, spell_header_name(n, pat), B(pad_header_value(&v.0, pad))));
        }
    }
    let headers = interleave(flat, &sp.header_order);
    WireRequest { method: l.method.clone(), uri, version: sp.version, headers, body: l.body.clone() }
}

/// Reorder headers so that the relative order of same-named headers is preserved.
pub fn interleave(flat: Vec<(usize, String, B)>, keys: &[u16]) -> Vec<(String, B)> {
    if keys.is_empty() {
        return flat.into_iter().map(|(_, n, v)| (n, v)).collect();
    }
    // assign each *group* occurrence a key; emit by repeatedly taking from the group chosen by keys
    let mut groups: Vec<(usize, std::collections::VecDeque<(String, B)>)> = Vec::new();
    for (g, n, v) in flat {
        match groups.iter_mut().find(|(gg, _)| *gg == g) {
            Some((_, q)) => q.push_back((n, v)),
            None => {
                let mut q = std::collections::VecDeque::new();
                q.push_back((n, v));
                groups.push((g, q));
            }
        }
    }
    let mut out = Vec::new();
    let mut k = 0usize;
    while !groups.is_empty() {
        let gi = pick_idx(keys[k % keys.len()], groups.len());
        k += 1;
        let item = groups[gi].1.pop_front().unwrap();
        out.push(item);
        if groups[gi].1.is_empty() {
            groups.remove(gi);
        }
    }
    out
}

/// Canonical query / path of a logical request computed directly from the decoded data (used to
/// cross-check the model's wire parser; a disagreement is a harness bug).
pub fn logical_canonical_path(l: &Logical) -> String {
    let mut p = String::new();
    for s in &l.segments {
        p.push('/');
        p.push_str(&pct_encode(&s.0));
    }
    if l.segments.is_empty() || l.trailing_slash {
        p.push('/');
    }
    p
}

// ---------------------------------------------------------------------------------------------
// configuration, clock, credentials

pub const REGIONS: &[&str] = &[
    "us-east-1", "eu-west-2", "us-gov-west-1", "cn-north-1", "local", "us-east-1a", "us-east", "US-EAST-1", "r", "",
    // names real deployments use (pseudo-regions, partitions, global endpoints)
    "fips-us-gov-west-1", "us-east-1-fips", "aws-global", "aws-cn-global", "us-iso-east-1", "ap-southeast-3", "il-central-1", "global", "*", "us-east-1 ",
];
pub const SERVICES: &[&str] = &[
    "service", "s3", "iam", "execute-api", "sts", "svc2", "s", "Service", "servic", "",
    "s3-object-lambda", "s3express", "s3-fips", "dynamodb", "ec2", "lambda", "es", "aoss", "S3", "monitoring",
];

pub fn region() -> BoxedStrategy<String> {
    prop_oneof![
        5 => any::<u16>().prop_map(|x| REGIONS[pick_idx(x, 4)].to_string()),
        3 => any::<u16>().prop_map(|x| REGIONS[pick_idx(x, REGIONS.len())].to_string()),
    ]
    .boxed()
}

pub fn service() -> BoxedStrategy<String> {
    prop_oneof![
        5 => any::<u16>().prop_map(|x| SERVICES[pick_idx(x, 4)].to_string()),
        3 => any::<u16>().prop_map(|x| SERVICES[pick_idx(x, SERVICES.len())].to_string()),
    ]
    .boxed()
}

/// A request instant somewhere in years 1-9999, biased to calendar boundaries. Whole seconds plus nanos.
pub fn instant() -> BoxedStrategy<Instant> {
    let normal = (2000i64..2031, 1u32..=12, 1u32..=28, 0u32..24, 0u32..60, 0u32..60)
        .prop_map(|(y, m, d, hh, mm, ss)| Instant::from_civil(y, m, d, hh, mm, ss, 0));
    let boundary = (
        prop_oneof![Just(1i64), Just(4), Just(999), Just(1000), Just(1900), Just(1970), Just(2000), Just(2023), Just(2024), Just(9999), 2i64..9999],
        prop_oneof![Just(1u32), Just(2), Just(3), Just(12), 1u32..=12],
        any::<u8>(),
        prop_oneof![Just((0u32, 0u32, 0u32)), Just((23, 59, 59)), Just((0, 14, 59)), Just((23, 45, 0)), Just((0, 15, 0)), Just((12, 0, 0))],
    )
        .prop_map(|(y, m, dsel, (hh, mm, ss))| {
            let dim = days_in_month(y, m);
            let d = match dsel % 4 {
                0 => 1,
                1 => dim,
                2 => dim.min(28),
                _ => 1 + (dsel as u32 / 4) % dim,
            };
            Instant::from_civil(y, m, d, hh, mm, ss, 0)
        });
    let anyt = (1i64..=9999, 1u32..=12, 1u32..=28, 0u32..24, 0u32..60, 0u32..60)
        .prop_map(|(y, m, d, hh, mm, ss)| Instant::from_civil(y, m, d, hh, mm, ss, 0));
    (prop_oneof![5 => normal.boxed(), 3 => boundary.boxed(), 2 => anyt.boxed()], prop_oneof![3 => Just(0u32), 1 => 0u32..1_000_000_000, 1 => Just(999_999_999u32), 1 => Just(1u32)])
        .prop_map(|(i, n)| Instant { secs: i.secs, nanos: n })
        .prop_filter("keep +-1 day inside years 1..9999", |i| {
            let lo = Instant::from_civil(1, 1, 2, 0, 0, 0, 0).secs;
            let hi = Instant::from_civil(9999, 12, 30, 23, 59, 59, 0).secs;
            i.secs >= lo && i.secs <= hi
        })
        .boxed()
}

pub fn ts_style() -> BoxedStrategy<TsStyle> {
    (
        any::<bool>(),
        prop_oneof![
            6 => Just(None),
            1 => Just(Some(0i32)),
            2 => prop_oneof![Just(60i32), Just(-60), Just(90), Just(-90), Just(330), Just(-570), Just(840), Just(-840), Just(1), Just(-1), Just(59), Just(-719)].prop_map(Some),
            1 => (-840i32..=840).prop_map(Some),
        ],
        prop_oneof![7 => Just(0u8), 2 => 1u8..=9, 1 => 10u8..=12],
        any::<bool>(),
        0u8..10,
    )
        .prop_map(|(extended, offset_min, frac_digits, comma, extra)| TsStyle { extended, offset_min, frac_digits, comma, extra })
        .boxed()
}

/// Truncate an instant to what `style` can print.
pub fn truncate_to_style(i: Instant, st: &TsStyle) -> Instant {
    let d = st.frac_digits.min(9) as u32;
    let unit = 10u32.pow(9 - d);
    Instant { secs: i.secs, nanos: i.nanos / unit * unit }
}

/// Clock offset (server time minus request time is -delta), nanoseconds, inside the +-15 min window, edge-biased.
pub fn delta_in_window() -> BoxedStrategy<i128> {
    const W: i128 = 900_000_000_000;
    prop_oneof![
        3 => Just(0i128),
        2 => -W..=W,
        1 => Just(W),
        1 => Just(-W),
        1 => (0i128..2_000_000_000).prop_map(|x| W - x),
        1 => (0i128..2_000_000_000).prop_map(|x| -W + x),
        1 => (-900i128..=900).prop_map(|s| s * 1_000_000_000),
    ]
    .boxed()
}

pub fn secret() -> BoxedStrategy<String> {
    prop_oneof![
        4 => "[A-Za-z0-9/+]{40}",
        3 => "[ -~]{0,40}",
        1 => Just(String::new()),
        1 => "[a-z]{1,8}",
        1 => "A[KS]IA[A-Z0-9]{16}",
        1 => "[0-9a-f]{32}",
        1 => "[0-9a-f]{8}-[0-9a-f]{4}-[0-9a-f]{4}-[0-9a-f]{4}-[0-9a-f]{12}",
        1 => ("[!-~]{0,30}", prop_oneof![Just("\n"), Just("\r\n"), Just(" "), Just("\t"), Just("\r"), Just("  ")], any::<bool>()).prop_map(|(s, w, front)| if front { format!("{}{}", w, s) } else { format!("{}{}", s, w) }),
        1 => vec(prop_oneof![Just("é"), Just("ß"), Just("日"), Just("a"), Just("\u{0}"), Just("𝄞")], 0..10).prop_map(|v| v.concat()),
    ]
    .prop_filter("fits KSecretKey", |s| s.len() <= 40)
    .boxed()
}

pub fn access_key() -> BoxedStrategy<String> {
    prop_oneof![
        6 => "AKIA[A-Z0-9]{12,16}",
        2 => "[A-Za-z0-9._~-]{1,24}",
        1 => Just("AKIDEXAMPLE".to_string()),
        1 => Just(String::new()),
        1 => "[!#$%&'()*+.:;<>?@^_`{|}~-]{1,6}",
    ]
    .boxed()
}

pub fn token() -> BoxedStrategy<Option<String>> {
    prop_oneof![
        5 => Just(None),
        3 => "[A-Za-z0-9/+=]{1,60}".prop_map(Some),
        1 => Just(Some(String::new())),
        1 => "[!-~]{1,20}".prop_map(Some),
        1 => (1000usize..3000).prop_map(|n| Some("Tok/+=".repeat(n / 6))),
    ]
    .boxed()
}

pub fn principal_spec() -> BoxedStrategy<PrincipalSpec> {
    prop_oneof![
        2 => Just(PrincipalSpec::Empty),
        3 => ("[0-9]{12}", "[a-zA-Z0-9_+=,.@-]{1,16}").prop_map(|(account, name)| PrincipalSpec::User { partition: "aws".into(), account, path: "/".into(), name }),
        2 => ("[0-9]{12}", "[a-zA-Z0-9_+=,.@-]{1,16}", "[a-zA-Z0-9_+=,.@-]{2,16}").prop_map(|(account, role, session)| PrincipalSpec::Role { partition: "aws".into(), account, role, session }),
        1 => Just(PrincipalSpec::Service { name: "lambda".into(), region: None, suffix: "amazonaws.com".into() }),
        // a regional service principal (its home region may or may not be the region the server validates for)
        2 => (prop_oneof![Just("lambda"), Just("ec2"), Just("s3"), Just("elasticloadbalancing")], any::<u16>()).prop_map(|(n, x)| {
            const HOME: &[&str] = &["us-east-1", "us-west-2", "eu-west-1", "cn-north-1", "us-gov-west-1"];
            PrincipalSpec::Service { name: n.into(), region: Some(HOME[pick_idx(x, HOME.len())].into()), suffix: "amazonaws.com".into() }
        }),
        1 => ("[0-9]{12}", "[a-zA-Z0-9_+=,.@-]{2,16}").prop_map(|(account, name)| PrincipalSpec::Federated { account, name }),
        1 => "[0-9]{12}".prop_map(|account| PrincipalSpec::Root { account }),
        1 => "[0-9a-f]{64}".prop_map(|id| PrincipalSpec::Canonical { id }),
        1 => ("[0-9]{12}", "[a-z]{1,8}").prop_map(|(account, role)| PrincipalSpec::Two { account, role, service: "ec2".into() }),
    ]
    .boxed()
}

pub fn session_pairs() -> BoxedStrategy<Vec<(String, String)>> {
    prop_oneof![
        3 => Just(vec![]),
        2 => vec(("[a-z:]{1,10}", prop_oneof![3 => "[ -~]{0,12}", 1 => Just("@null".to_string()), 1 => Just("true".to_string()), 1 => "-?[0-9]{1,12}", 1 => Just("10.1.2.3".to_string()), 1 => Just("::1".to_string()), 1 => Just(String::new())]), 1..5),
    ]
    .boxed()
}

pub fn reqs_names() -> BoxedStrategy<Vec<String>> {
    vec((any::<u16>(), any::<u8>()), 0..=2)
        .prop_map(|v| {
            v.into_iter()
                .map(|(x, pat)| {
                    const P: &[&str] = &["content-type", "etag", "x-amz-meta-a", "x-custom", "x-amz-content-sha256", "accept", "x-amz-date", "x-a"];
                    spell_header_name(P[pick_idx(x, P.len())], pat)
                })
                .collect()
        })
        .boxed()
}

pub fn reqs_prefixes() -> BoxedStrategy<Vec<String>> {
    vec((any::<u16>(), any::<u8>()), 0..=2)
        .prop_map(|v| {
            v.into_iter()
                .map(|(x, pat)| {
                    const P: &[&str] = &["x-amz-meta-", "x-amz-", "x-custom", "x-", "my-header", "e", "x-amz-meta-a", "x.", ""];
                    spell_header_name(P[pick_idx(x, P.len())], pat)
                })
                .collect()
        })
        .boxed()
}

pub fn reqs(rich: bool) -> BoxedStrategy<Reqs> {
    if !rich {
        return prop_oneof![
            4 => Just(Reqs::default()),
            1 => (reqs_names(), reqs_names(), reqs_prefixes(), 0u8..5).prop_map(|(always, if_in_request, prefixes, route)| Reqs { always, if_in_request, prefixes, route }),
        ]
        .boxed();
    }
    (reqs_names(), reqs_names(), reqs_prefixes(), 0u8..5)
        .prop_map(|(always, if_in_request, prefixes, route)| Reqs { always, if_in_request, prefixes, route })
        .boxed()
}

// ---------------------------------------------------------------------------------------------
// a complete, validly signed request

#[derive(Clone, Copy, Debug)]
pub struct PlanOpts {
    pub logical: LogicalOpts,
    pub allow_s3: bool,
    pub allow_fold: bool,
    pub rich_reqs: bool,
    pub header_only: bool,
    pub query_only: bool,
    /// every spelling choice plain (C-specific generators that want irrelevant dimensions quiet)
    pub plain_spelling: bool,
    pub form_bodies: bool,
}

impl Default for PlanOpts {
    fn default() -> Self {
        PlanOpts {
            logical: LogicalOpts::default(),
            allow_s3: true,
            allow_fold: true,
            rich_reqs: false,
            header_only: false,
            query_only: false,
            plain_spelling: false,
            form_bodies: true,
        }
    }
}

#[derive(Clone, Debug, PartialEq, Eq, Serialize, Deserialize)]
pub struct Plan {
    pub logical: Logical,
    pub spelling: Spelling,
    pub cfg: ServerConfig,
    pub spec: SignSpec,
    pub entry: KeyEntry,
    /// request instant (already truncated to the precision of the rendering)
    pub instant: Instant,
    pub style: TsStyle,
    /// form parameters rendered into the body (when Some, the body is a form and content-type is set)
    pub form: Option<Vec<(B, B)>>,
    /// content-type value to use instead of the plain form media type (when `form` is Some), or to add
    #[serde(default)]
    pub ct_override: Option<String>,
}

#[derive(Clone, Debug)]
pub struct Built {
    pub base: WireRequest,
    pub case: Case,
    pub signed: Signed,
}

/// Render form parameters as an application/x-www-form-urlencoded body.
pub fn spell_form(pairs: &[(B, B)], ch: &[u8]) -> Vec<u8> {
    let mut s = String::new();
    for (i, (n, v)) in pairs.iter().enumerate() {
        if i > 0 {
            s.push('&');
        }
        let rot: Vec<u8> = if ch.is_empty() { vec![] } else { ch.iter().cycle().skip(i + 5).take(ch.len()).cloned().collect() };
        s.push_str(&spell_form_element(&n.0, &rot, false));
        s.push('=');
        s.push_str(&spell_form_element(&v.0, &rot, true));
    }
    s.into_bytes()
}

/// Like the query speller, but a body may carry any literal byte except the structural ones; to keep
/// the body valid UTF-8 every non-ASCII byte is escaped.
pub fn spell_form_element(el: &[u8], choices: &[u8], is_value: bool) -> String {
    let mut out = String::new();
    for (i, &b) in el.iter().enumerate() {
        let c = if choices.is_empty() { 0 } else { choices[i % choices.len()] };
        if b == b' ' {
            if c % 2 == 0 {
                out.push('+');
            } else {
                out.push_str(&esc(b, c >> 3));
            }
            continue;
        }
        let structural = b == b'&' || b == b'+' || b == b'%' || (b == b'=' && !is_value);
        let can_lit = b < 0x80 && !structural;
        let want_lit = if is_unreserved(b) { c % 8 != 7 } else { c % 2 == 0 };
        if can_lit && want_lit {
            out.push(b as char);
        } else {
            out.push_str(&esc(b, c >> 3));
        }
    }
    out
}

impl Plan {
    /// The unsigned wire request.
    pub fn base(&self) -> WireRequest {
        let mut l = self.logical.clone();
        if let Some(f) = &self.form {
            l.body = B(spell_form(f, &self.spelling.bytes));
            if !l.headers.iter().any(|(n, _)| n == "content-type") {
                let ct = self.ct_override.clone().unwrap_or_else(|| "application/x-www-form-urlencoded".to_string());
                l.headers.push(("content-type".into(), vec![B::from(ct)]));
            }
        } else if let Some(ct) = &self.ct_override {
            if !l.headers.iter().any(|(n, _)| n == "content-type") {
                l.headers.push(("content-type".into(), vec![B::from(ct.as_str())]));
            }
        }
        let hash = crate::model::crypto::hex_lower(&crate::model::crypto::sha256(&l.body.0));
        for (_, vals) in l.headers.iter_mut() {
            for v in vals.iter_mut() {
                if v.0 == PAYLOAD_HASH_PLACEHOLDER {
                    *v = B::from(hash.as_str());
                }
            }
        }
        if self.spec.carrier == Carrier::Query && self.spelling.absolute_form >= 4 && !(self.spec.auth_in_body && self.cfg.fold && self.form.is_some()) {
            // an authority-form target cannot carry the query parameters of the query carrier
            let sp = Spelling { absolute_form: 0, ..self.spelling.clone() };
            return spell(&l, &sp, self.cfg.s3);
        }
        spell(&l, &self.spelling, self.cfg.s3)
    }
    pub fn provider(&self) -> ProviderScript {
        ProviderScript { keys: vec![self.entry.clone()], ..ProviderScript::default() }
    }
    pub fn build(&self) -> Result<Built, String> {
        let base = self.base();
        let signed = sign(&base, &self.cfg, &self.spec)?;
        let case = Case { req: signed.req.clone(), cfg: self.cfg.clone(), prov: self.provider() };
        Ok(Built { base, case, signed })
    }
}

pub fn plan(o: PlanOpts) -> BoxedStrategy<Plan> {
    let carrier = if o.header_only {
        Just(Carrier::Header).boxed()
    } else if o.query_only {
        Just(Carrier::Query).boxed()
    } else {
        prop_oneof![Just(Carrier::Header), Just(Carrier::Query)].boxed()
    };
    let sp = if o.plain_spelling { Just(Spelling { version: 11, ..Spelling::default() }).boxed() } else { spelling() };
    let form = if o.form_bodies { prop_oneof![3 => Just(None), 1 => query_pairs(4).prop_map(Some)].boxed() } else { Just(None).boxed() };
    (
        (logical(o.logical), sp, carrier, form),
        (region(), service(), instant(), ts_style(), delta_in_window()),
        (any::<bool>(), any::<bool>(), reqs(o.rich_reqs)),
        (access_key(), secret(), token(), principal_spec(), session_pairs()),
        (any::<[u8; 4]>(), any::<u16>(), vec(any::<bool>(), 8)),
    )
        .prop_map(move |((mut logical, spelling, carrier, form), (region, service, inst, style, delta), (s3, fold, reqs), (ak, secret, token, principal, session), (misc, perm, picks))| {
            let s3 = s3 && o.allow_s3 && misc[0] % 3 == 0;
            let mut form = form;
            if carrier == Carrier::Query {
                let own = |n: &B| AMZ_AUTH_NAMES.iter().any(|a| n.0 == a.as_bytes());
                logical.query.retain(|(n, _)| !own(n));
                if let Some(f) = form.as_mut() {
                    f.retain(|(n, _)| !own(n));
                }
            }
            // headers the service always requires must exist for the request to be acceptable
            for h in &reqs.always {
                let l = h.to_lowercase();
                let supplied_later = (l == "content-type" && form.is_some())
                    || (carrier == Carrier::Header && (l == "x-amz-date" || (l == "x-amz-security-token" && token.is_some())));
                if !supplied_later && !logical.headers.iter().any(|(n, _)| *n == l) {
                    logical.headers.push((l, vec![B::from("required-value")]));
                }
            }
            let needs_xamzdate = reqs.always.iter().any(|h| h.eq_ignore_ascii_case("x-amz-date"));
            // an empty prefix demands that EVERY header be signed; with the Authorization header as carrier that
            // is unsatisfiable (the header would have to sign itself), so it is only kept for the query carrier
            let mut reqs = reqs;
            if carrier == Carrier::Header {
                reqs.prefixes.retain(|p| !p.is_empty());
            }
            let fold = fold && o.allow_fold;
            let instant = truncate_to_style(inst, &style);
            let now = instant.add_nanos(-delta);
            let cfg = ServerConfig { region, service, now, s3, fold, reqs };
            let ts_text = render(instant, style);
            let mut spec = SignSpec::basic(carrier, &ak, &secret, &ts_text);
            spec.token = token.clone();
            spec.use_date_header = carrier == Carrier::Header
                && misc[1] % 5 == 0
                && !needs_xamzdate
                && !logical.headers.iter().any(|(n, _)| n == "date" || n == "x-amz-date");
            spec.param_order = match perm % 6 {
                0 => [0, 1, 2],
                1 => [0, 2, 1],
                2 => [1, 0, 2],
                3 => [1, 2, 0],
                4 => [2, 0, 1],
                _ => [2, 1, 0],
            };
            spec.sep = misc[2] % 9;
            spec.loose_escapes = misc[3] % 2 == 0;
            spec.auth_first = misc[3] % 3 == 0;
            spec.date_header_name = spell_header_name("x-amz-date", misc[0]);
            spec.token_header_name = spell_header_name("x-amz-security-token", misc[1]);
            spec.auth_header_name = spell_header_name("authorization", misc[2]);
            // signed headers: host, the date/token header (header carrier), everything the service requires,
            // and a generated subset of the rest
            let mut signed: Vec<String> = vec!["host".into()];
            let mut present: Vec<String> = logical.headers.iter().map(|(n, _)| n.clone()).collect();
            if form.is_some() && !present.iter().any(|n| n == "content-type") {
                present.push("content-type".into());
            }
            if carrier == Carrier::Header {
                let dn = if spec.use_date_header { "date" } else { "x-amz-date" };
                present.push(dn.into());
                if picks[0] || !spec.use_date_header {
                    signed.push(dn.into());
                }
                if token.is_some() {
                    present.push("x-amz-security-token".into());
                    if picks[1] {
                        signed.push("x-amz-security-token".into());
                    }
                }
            }
            for h in &cfg.reqs.always {
                signed.push(h.to_lowercase());
            }
            for h in &cfg.reqs.if_in_request {
                let l = h.to_lowercase();
                if present.contains(&l) {
                    signed.push(l);
                }
            }
            for p in &cfg.reqs.prefixes {
                let pl = p.to_lowercase();
                for n in &present {
                    if n.starts_with(&pl) {
                        signed.push(n.clone());
                    }
                }
            }
            for (i, n) in present.iter().enumerate() {
                if picks[2 + i % 6] && n != "authorization" {
                    signed.push(n.clone());
                }
            }
            signed.sort();
            signed.dedup();
            // a signed header must exist in the request (the model leaves the other case unspecified)
            signed.retain(|n| present.contains(n));
            if misc[1] % 8 == 3 && signed.len() >= 2 {
                // the list as SENT may be in any order; the canonical form sorts it (C11)
                let k = 1 + (misc[2] as usize % (signed.len() - 1));
                signed.rotate_left(k);
                if misc[3] % 2 == 0 {
                    signed.reverse();
                }
                spec.keep_order = true;
            }
            spec.signed_headers = signed;
            let entry = KeyEntry { access_key: ak, token, secret, derive_as: None, principal, session };
            Plan { logical, spelling, cfg, spec, entry, instant, style, form, ct_override: None }
        })
        .boxed()
}

/// A fixed, plain, valid plan (used as the skeleton of enumerations).
pub fn simple_plan(carrier: Carrier) -> Plan {
    let instant = Instant::from_civil(2015, 8, 30, 12, 36, 0, 0);
    let style = TsStyle::BASIC_Z;
    let logical = Logical {
        method: "GET".into(),
        segments: vec![B::from("p")],
        trailing_slash: false,
        query: vec![(B::from("k"), B::from("v"))],
        headers: vec![("host".into(), vec![B::from("example.amazonaws.com")])],
        body: B::default(),
    };
    let cfg = ServerConfig { now: instant, ..ServerConfig::default() };
    let mut spec = SignSpec::basic(carrier, "AKIDEXAMPLE", "wJalrXUtnFEMI/K7MDENG+bPxRfiCYEXAMPLEKEY", &render(instant, style));
    spec.signed_headers = if carrier == Carrier::Header { vec!["host".into(), "x-amz-date".into()] } else { vec!["host".into()] };
    let entry = KeyEntry {
        access_key: "AKIDEXAMPLE".into(),
        token: None,
        secret: "wJalrXUtnFEMI/K7MDENG+bPxRfiCYEXAMPLEKEY".into(),
        derive_as: None,
        principal: PrincipalSpec::Empty,
        session: vec![],
    };
    Plan { logical, spelling: Spelling { version: 11, ..Spelling::default() }, cfg, spec, entry, instant, style, form: None, ct_override: None }
}

impl Plan {
    /// Re-render the request timestamp (keeps everything else).
    pub fn with_time(mut self, instant: Instant, style: TsStyle) -> Plan {
        self.instant = truncate_to_style(instant, &style);
        self.style = style;
        self.spec.ts_text = render(self.instant, style);
        self
    }
}

/// plan options with everything irrelevant kept quiet
pub fn quiet_opts() -> PlanOpts {
    PlanOpts {
        logical: LogicalOpts { max_segments: 2, max_query: 2, max_headers: 2, body_class: 0, raw_segments: false },
        allow_s3: false,
        allow_fold: false,
        rich_reqs: false,
        header_only: false,
        query_only: false,
        plain_spelling: true,
        form_bodies: false,
    }
}
