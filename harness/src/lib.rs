pub mod engine;
pub mod exec;
pub mod fuzz;
pub mod gen;
pub mod model;
pub mod types;
pub mod props;
