//! Reference canonicalisation of paths, queries and headers, written from the SigV4
//! specification and the property statements (C09, C10, C11). Operates on bytes.

/// Why a canonicalisation failed.
#[derive(Debug, Clone, PartialEq, Eq)]
pub enum CanonErr {
    /// path does not start with '/'
    Relative,
    /// '%' not followed by two hex digits
    BadEscape,
    /// '..' climbs above the root (standard mode)
    AboveRoot,
}

pub fn is_unreserved(b: u8) -> bool {
    b.is_ascii_alphanumeric() || b == b'-' || b == b'.' || b == b'_' || b == b'~'
}

fn hexval(c: u8) -> Option<u8> {
    match c {
        b'0'..=b'9' => Some(c - b'0'),
        b'a'..=b'f' => Some(c - b'a' + 10),
        b'A'..=b'F' => Some(c - b'A' + 10),
        _ => None,
    }
}

/// Percent-decode. `plus_is_space`: query-string semantics.
pub fn pct_decode(s: &[u8], plus_is_space: bool) -> Result<Vec<u8>, CanonErr> {
    let mut out = Vec::with_capacity(s.len());
    let mut i = 0;
    while i < s.len() {
        let c = s[i];
        if c == b'%' {
            if i + 2 >= s.len() {
                return Err(CanonErr::BadEscape);
            }
            let (h, l) = (hexval(s[i + 1]), hexval(s[i + 2]));
            match (h, l) {
                (Some(h), Some(l)) => out.push(h << 4 | l),
                _ => return Err(CanonErr::BadEscape),
            }
            i += 3;
        } else if c == b'+' && plus_is_space {
            out.push(b' ');
            i += 1;
        } else {
            out.push(c);
            i += 1;
        }
    }
    Ok(out)
}

/// Encode every byte outside the unreserved set as %HH (upper-case hex).
pub fn pct_encode(s: &[u8]) -> String {
    const D: &[u8; 16] = b"0123456789ABCDEF";
    let mut out = String::with_capacity(s.len());
    for &b in s {
        if is_unreserved(b) {
            out.push(b as char);
        } else {
            out.push('%');
            out.push(D[(b >> 4) as usize] as char);
            out.push(D[(b & 15) as usize] as char);
        }
    }
    out
}

/// Reference canonical path. `raw` is the path as it appears on the wire (bytes).
///
/// Returns the canonical path and a flag telling whether the result depends on the one rule the
/// property text does not decide (a trailing dot-segment: "/a/." -> "/a" (SDK behaviour) or
/// "/a/" (RFC 3986)).
pub fn canonical_path(raw: &[u8], s3: bool) -> Result<(String, bool), CanonErr> {
    if raw.is_empty() {
        return Ok(("/".to_string(), false));
    }
    if raw[0] != b'/' {
        return Err(CanonErr::Relative);
    }
    let segs: Vec<&[u8]> = raw[1..].split(|b| *b == b'/').collect();
    let mut decoded: Vec<Vec<u8>> = Vec::with_capacity(segs.len());
    for s in &segs {
        decoded.push(pct_decode(s, false)?);
    }
    if s3 {
        let mut out = String::new();
        for d in &decoded {
            out.push('/');
            out.push_str(&pct_encode(d));
        }
        return Ok((out, false));
    }
    let mut stack: Vec<&[u8]> = Vec::new();
    let n = decoded.len();
    let mut last_is_dot = false;
    for (idx, d) in decoded.iter().enumerate() {
        let is_last = idx + 1 == n;
        if d.is_empty() {
            continue;
        } else if d == b"." {
            if is_last {
                last_is_dot = true;
            }
            continue;
        } else if d == b".." {
            if stack.pop().is_none() {
                return Err(CanonErr::AboveRoot);
            }
            if is_last {
                last_is_dot = true;
            }
        } else {
            stack.push(d);
        }
    }
    let trailing = raw.len() > 1 && raw[raw.len() - 1] == b'/';
    let mut out = String::new();
    for d in &stack {
        out.push('/');
        out.push_str(&pct_encode(d));
    }
    if out.is_empty() {
        return Ok(("/".to_string(), false));
    }
    if trailing {
        out.push('/');
    }
    // "/a/." or "/a/b/..": RFC 3986 would keep a trailing slash, the SDKs do not.
    Ok((out, last_is_dot))
}

/// Split a raw query string into decoded (name, value) pairs, in order of appearance.
pub fn parse_query(raw: &[u8]) -> Result<Vec<(Vec<u8>, Vec<u8>)>, CanonErr> {
    let mut out = Vec::new();
    for piece in raw.split(|b| *b == b'&') {
        if piece.is_empty() {
            continue;
        }
        let (n, v) = match piece.iter().position(|b| *b == b'=') {
            Some(p) => (&piece[..p], &piece[p + 1..]),
            None => (piece, &piece[piece.len()..]),
        };
        out.push((pct_decode(n, true)?, pct_decode(v, true)?));
    }
    Ok(out)
}

/// Canonical query string of a list of decoded pairs: once-encoded, X-Amz-Signature removed,
/// sorted by (encoded name, encoded value) in byte order, joined with '&'.
pub fn canonical_query(pairs: &[(Vec<u8>, Vec<u8>)]) -> String {
    let mut enc: Vec<(String, String)> = pairs
        .iter()
        .filter(|(n, _)| n.as_slice() != b"X-Amz-Signature")
        .map(|(n, v)| (pct_encode(n), pct_encode(v)))
        .collect();
    enc.sort();
    let mut out = String::new();
    for (i, (n, v)) in enc.iter().enumerate() {
        if i > 0 {
            out.push('&');
        }
        out.push_str(n);
        out.push('=');
        out.push_str(v);
    }
    out
}

/// Canonical form of one header value: strip leading/trailing 0x20, collapse inner runs of 0x20.
pub fn canonical_header_value(v: &[u8]) -> Vec<u8> {
    let mut out = Vec::with_capacity(v.len());
    let mut prev_space = true;
    for &b in v {
        if b == b' ' {
            if !prev_space {
                out.push(b' ');
            }
            prev_space = true;
        } else {
            out.push(b);
            prev_space = false;
        }
    }
    while out.last() == Some(&b' ') {
        out.pop();
    }
    out
}

/// Values of header `name_lc` (already lower-case) in arrival order, canonicalised.
pub fn header_values<'a>(headers: &'a [(String, Vec<u8>)], name_lc: &str) -> Vec<Vec<u8>> {
    headers
        .iter()
        .filter(|(n, _)| n.eq_ignore_ascii_case(name_lc))
        .map(|(_, v)| canonical_header_value(v))
        .collect()
}

/// Canonical headers block + signed-headers line for the given (already split) signed list,
/// emitted in the order given (callers sort first). Names absent from the request emit nothing.
pub fn canonical_headers_block(headers: &[(String, Vec<u8>)], signed: &[String]) -> Vec<u8> {
    let mut out = Vec::new();
    for name in signed {
        let vals = header_values(headers, name);
        if vals.is_empty() {
            continue;
        }
        out.extend_from_slice(name.as_bytes());
        out.push(b':');
        for (i, v) in vals.iter().enumerate() {
            if i > 0 {
                out.push(b',');
            }
            out.extend_from_slice(v);
        }
        out.push(b'\n');
    }
    out
}
