//! Independent SHA-256 (FIPS 180-4), HMAC (RFC 2104), hex and base64. Shares no code with the
//! crate under test or with the sha2/hmac crates it uses.

const K: [u32; 64] = [
    0x428a2f98, 0x71374491, 0xb5c0fbcf, 0xe9b5dba5, 0x3956c25b, 0x59f111f1, 0x923f82a4, 0xab1c5ed5, 0xd807aa98,
    0x12835b01, 0x243185be, 0x550c7dc3, 0x72be5d74, 0x80deb1fe, 0x9bdc06a7, 0xc19bf174, 0xe49b69c1, 0xefbe4786,
    0x0fc19dc6, 0x240ca1cc, 0x2de92c6f, 0x4a7484aa, 0x5cb0a9dc, 0x76f988da, 0x983e5152, 0xa831c66d, 0xb00327c8,
    0xbf597fc7, 0xc6e00bf3, 0xd5a79147, 0x06ca6351, 0x14292967, 0x27b70a85, 0x2e1b2138, 0x4d2c6dfc, 0x53380d13,
    0x650a7354, 0x766a0abb, 0x81c2c92e, 0x92722c85, 0xa2bfe8a1, 0xa81a664b, 0xc24b8b70, 0xc76c51a3, 0xd192e819,
    0xd6990624, 0xf40e3585, 0x106aa070, 0x19a4c116, 0x1e376c08, 0x2748774c, 0x34b0bcb5, 0x391c0cb3, 0x4ed8aa4a,
    0x5b9cca4f, 0x682e6ff3, 0x748f82ee, 0x78a5636f, 0x84c87814, 0x8cc70208, 0x90befffa, 0xa4506ceb, 0xbef9a3f7,
    0xc67178f2,
];

fn compress(h: &mut [u32; 8], block: &[u8]) {
    let mut w = [0u32; 64];
    for i in 0..16 {
        w[i] = u32::from_be_bytes([block[4 * i], block[4 * i + 1], block[4 * i + 2], block[4 * i + 3]]);
    }
    for i in 16..64 {
        let s0 = w[i - 15].rotate_right(7) ^ w[i - 15].rotate_right(18) ^ (w[i - 15] >> 3);
        let s1 = w[i - 2].rotate_right(17) ^ w[i - 2].rotate_right(19) ^ (w[i - 2] >> 10);
        w[i] = w[i - 16].wrapping_add(s0).wrapping_add(w[i - 7]).wrapping_add(s1);
    }
    let (mut a, mut b, mut c, mut d, mut e, mut f, mut g, mut hh) = (h[0], h[1], h[2], h[3], h[4], h[5], h[6], h[7]);
    for i in 0..64 {
        let s1 = e.rotate_right(6) ^ e.rotate_right(11) ^ e.rotate_right(25);
        let ch = (e & f) ^ (!e & g);
        let t1 = hh.wrapping_add(s1).wrapping_add(ch).wrapping_add(K[i]).wrapping_add(w[i]);
        let s0 = a.rotate_right(2) ^ a.rotate_right(13) ^ a.rotate_right(22);
        let maj = (a & b) ^ (a & c) ^ (b & c);
        let t2 = s0.wrapping_add(maj);
        hh = g;
        g = f;
        f = e;
        e = d.wrapping_add(t1);
        d = c;
        c = b;
        b = a;
        a = t1.wrapping_add(t2);
    }
    h[0] = h[0].wrapping_add(a);
    h[1] = h[1].wrapping_add(b);
    h[2] = h[2].wrapping_add(c);
    h[3] = h[3].wrapping_add(d);
    h[4] = h[4].wrapping_add(e);
    h[5] = h[5].wrapping_add(f);
    h[6] = h[6].wrapping_add(g);
    h[7] = h[7].wrapping_add(hh);
}

pub fn sha256(data: &[u8]) -> [u8; 32] {
    let mut h: [u32; 8] =
        [0x6a09e667, 0xbb67ae85, 0x3c6ef372, 0xa54ff53a, 0x510e527f, 0x9b05688c, 0x1f83d9ab, 0x5be0cd19];
    let mut chunks = data.chunks_exact(64);
    for c in &mut chunks {
        compress(&mut h, c);
    }
    let rem = chunks.remainder();
    let mut tail = [0u8; 128];
    tail[..rem.len()].copy_from_slice(rem);
    tail[rem.len()] = 0x80;
    let total = if rem.len() + 9 <= 64 { 64 } else { 128 };
    let bits = (data.len() as u64).wrapping_mul(8);
    tail[total - 8..total].copy_from_slice(&bits.to_be_bytes());
    compress(&mut h, &tail[..64]);
    if total == 128 {
        compress(&mut h, &tail[64..128]);
    }
    let mut out = [0u8; 32];
    for i in 0..8 {
        out[4 * i..4 * i + 4].copy_from_slice(&h[i].to_be_bytes());
    }
    out
}

pub fn hmac_sha256(key: &[u8], msg: &[u8]) -> [u8; 32] {
    let mut k = [0u8; 64];
    if key.len() > 64 {
        k[..32].copy_from_slice(&sha256(key));
    } else {
        k[..key.len()].copy_from_slice(key);
    }
    let mut inner = Vec::with_capacity(64 + msg.len());
    inner.extend(k.iter().map(|b| b ^ 0x36));
    inner.extend_from_slice(msg);
    let ih = sha256(&inner);
    let mut outer = Vec::with_capacity(96);
    outer.extend(k.iter().map(|b| b ^ 0x5c));
    outer.extend_from_slice(&ih);
    sha256(&outer)
}

pub fn hex_lower(b: &[u8]) -> String {
    const D: &[u8; 16] = b"0123456789abcdef";
    let mut s = String::with_capacity(b.len() * 2);
    for x in b {
        s.push(D[(x >> 4) as usize] as char);
        s.push(D[(x & 15) as usize] as char);
    }
    s
}

pub fn hex_upper(b: &[u8]) -> String {
    hex_lower(b).to_ascii_uppercase()
}

pub fn unhex(s: &str) -> Option<Vec<u8>> {
    let b = s.as_bytes();
    if b.len() % 2 != 0 {
        return None;
    }
    let v = |c: u8| -> Option<u8> {
        match c {
            b'0'..=b'9' => Some(c - b'0'),
            b'a'..=b'f' => Some(c - b'a' + 10),
            b'A'..=b'F' => Some(c - b'A' + 10),
            _ => None,
        }
    };
    let mut out = Vec::with_capacity(b.len() / 2);
    for p in b.chunks(2) {
        out.push(v(p[0])? << 4 | v(p[1])?);
    }
    Some(out)
}

pub fn base64(b: &[u8], url: bool, pad: bool) -> String {
    let alpha: &[u8; 64] = if url {
        b"ABCDEFGHIJKLMNOPQRSTUVWXYZabcdefghijklmnopqrstuvwxyz0123456789-_"
    } else {
        b"ABCDEFGHIJKLMNOPQRSTUVWXYZabcdefghijklmnopqrstuvwxyz0123456789+/"
    };
    let mut s = String::new();
    for c in b.chunks(3) {
        let n = (c[0] as u32) << 16 | (*c.get(1).unwrap_or(&0) as u32) << 8 | (*c.get(2).unwrap_or(&0) as u32);
        s.push(alpha[(n >> 18) as usize & 63] as char);
        s.push(alpha[(n >> 12) as usize & 63] as char);
        if c.len() > 1 {
            s.push(alpha[(n >> 6) as usize & 63] as char);
        } else if pad {
            s.push('=');
        }
        if c.len() > 2 {
            s.push(alpha[n as usize & 63] as char);
        } else if pad {
            s.push('=');
        }
    }
    s
}

/// SigV4 signing key chain. Returns (kdate, kregion, kservice, ksigning).
pub fn key_chain(secret: &[u8], date8: &str, region: &str, service: &str) -> [[u8; 32]; 4] {
    let mut k0 = Vec::with_capacity(4 + secret.len());
    k0.extend_from_slice(b"AWS4");
    k0.extend_from_slice(secret);
    let kd = hmac_sha256(&k0, date8.as_bytes());
    let kr = hmac_sha256(&kd, region.as_bytes());
    let ks = hmac_sha256(&kr, service.as_bytes());
    let kg = hmac_sha256(&ks, b"aws4_request");
    [kd, kr, ks, kg]
}

/// 64-bit FNV-1a, used for case digests (distinctness counting).
pub fn fnv64(data: &[u8]) -> u64 {
    let mut h: u64 = 0xcbf29ce484222325;
    for b in data {
        h ^= *b as u64;
        h = h.wrapping_mul(0x100000001b3);
    }
    h
}

/// Known-answer self tests; returns Err(description) when the model's own crypto is wrong.
pub fn self_test() -> Result<(), String> {
    let t = |name: &str, got: String, want: &str| -> Result<(), String> {
        if got != want {
            Err(format!("crypto self-test {name}: got {got} want {want}"))
        } else {
            Ok(())
        }
    };
    t("sha256-empty", hex_lower(&sha256(b"")), "e3b0c44298fc1c149afbf4c8996fb92427ae41e4649b934ca495991b7852b855")?;
    t("sha256-abc", hex_lower(&sha256(b"abc")), "ba7816bf8f01cfea414140de5dae2223b00361a396177a9cb410ff61f20015ad")?;
    t(
        "sha256-448",
        hex_lower(&sha256(b"abcdbcdecdefdefgefghfghighijhijkijkljklmklmnlmnomnopnopq")),
        "248d6a61d20638b8e5c026930c3e6039a33ce45964ff2167f6ecedd419db06c1",
    )?;
    t(
        "sha256-896",
        hex_lower(&sha256(
            b"abcdefghbcdefghicdefghijdefghijkefghijklfghijklmghijklmnhijklmnoijklmnopjklmnopqklmnopqrlmnopqrsmnopqrstnopqrstu",
        )),
        "cf5b16a778af8380036ce59e7b0492370b249b11e8f07a51afac45037afee9d1",
    )?;
    let a = vec![b'a'; 1_000_000];
    t("sha256-1Ma", hex_lower(&sha256(&a)), "cdc76e5c9914fb9281a1c7e284d73e67f1809a48a497200e046d39ccc7112cd0")?;
    // lengths around the padding boundary against each other (55, 56, 63, 64 bytes) -- values from FIPS examples
    t(
        "sha256-55",
        hex_lower(&sha256(&vec![b'a'; 55])),
        "9f4390f8d30c2dd92ec9f095b65e2b9ae9b0a925a5258e241c9f1e910f734318",
    )?;
    t(
        "sha256-56",
        hex_lower(&sha256(&vec![b'a'; 56])),
        "b35439a4ac6f0948b6d6f9e3c6af0f5f590ce20f1bde7090ef7970686ec6738a",
    )?;
    t(
        "sha256-64",
        hex_lower(&sha256(&vec![b'a'; 64])),
        "ffe054fe7ae0cb6dc65c3af9b61d5209f439851db43d0ba5997337df154668eb",
    )?;
    // RFC 4231
    t(
        "hmac-1",
        hex_lower(&hmac_sha256(&[0x0b; 20], b"Hi There")),
        "b0344c61d8db38535ca8afceaf0bf12b881dc200c9833da726e9376c2e32cff7",
    )?;
    t(
        "hmac-2",
        hex_lower(&hmac_sha256(b"Jefe", b"what do ya want for nothing?")),
        "5bdcc146bf60754e6a042426089575c75a003f089d2739839dec58b964ec3843",
    )?;
    t(
        "hmac-3",
        hex_lower(&hmac_sha256(&[0xaa; 20], &[0xdd; 50])),
        "773ea91e36800e46854db8ebd09181a72959098b3ef8c122d9635514ced565fe",
    )?;
    t(
        "hmac-6",
        hex_lower(&hmac_sha256(&[0xaa; 131], b"Test Using Larger Than Block-Size Key - Hash Key First")),
        "60e431591ee0b67f0d8a26aacbf5b77f8e0bc6213728c5140546040f0ee37f54",
    )?;
    t(
        "hmac-7",
        hex_lower(&hmac_sha256(
            &[0xaa; 131],
            b"This is a test using a larger than block-size key and a larger than block-size data. The key needs to be hashed before being used by the HMAC algorithm.",
        )),
        "9b09ffa71b942fcb27635fbcd5b0e944bfdc63644f0713938a7f51535c3a35e2",
    )?;
    // AWS documentation example (sigv4 signing key derivation)
    let kc = key_chain(b"wJalrXUtnFEMI/K7MDENG+bPxRfiCYEXAMPLEKEY", "20120215", "us-east-1", "iam");
    t("aws-ksigning", hex_lower(&kc[3]), "f4780e2d9f65fa895f9c67b32ce1baf0b0d8a43505a000a1a9e090d414db404d")?;
    t("b64", base64(b"foobar", false, true), "Zm9vYmFy")?;
    t("b64-pad", base64(b"fooba", false, true), "Zm9vYmE=")?;
    t("b64-pad2", base64(b"foob", false, true), "Zm9vYg==")?;
    t("b64-url", base64(&[0xfb, 0xff], true, false), "-_8")?;
    Ok(())
}
