pub mod canon;
pub mod crypto;
pub mod sign;
pub mod time;
pub mod verify;
pub mod selftest;
