//! Validates the reference model against AWS's own published SigV4 test-suite outputs (the
//! .creq / .sts / .sreq files are AWS's data, not the crate's code). A failure here is a harness
//! problem (exit 2), never an alarm about the crate.

use super::time::Instant;
use super::verify::*;
use crate::types::*;

const SUITE: &str = "/repo/src/aws-sig-v4-test-suite";

const VECTORS: &[&str] = &[
    "get-header-key-duplicate/get-header-key-duplicate",
    "get-header-value-order/get-header-value-order",
    "get-header-value-trim/get-header-value-trim",
    "get-unreserved/get-unreserved",
    "get-utf8/get-utf8",
    "get-vanilla-empty-query-key/get-vanilla-empty-query-key",
    "get-vanilla-query-order-key-case/get-vanilla-query-order-key-case",
    "get-vanilla-query-order-key/get-vanilla-query-order-key",
    "get-vanilla-query-order-value/get-vanilla-query-order-value",
    "get-vanilla-query-unreserved/get-vanilla-query-unreserved",
    "get-vanilla-query/get-vanilla-query",
    "get-vanilla-utf8-query/get-vanilla-utf8-query",
    "get-vanilla/get-vanilla",
    "normalize-path/get-relative-relative/get-relative-relative",
    "normalize-path/get-relative/get-relative",
    "normalize-path/get-slash-dot-slash/get-slash-dot-slash",
    "normalize-path/get-slash-pointless-dot/get-slash-pointless-dot",
    "normalize-path/get-slash/get-slash",
    "normalize-path/get-slashes/get-slashes",
    "post-header-key-case/post-header-key-case",
    "post-header-key-sort/post-header-key-sort",
    "post-header-value-case/post-header-value-case",
    "post-sts-token/post-sts-header-after/post-sts-header-after",
    "post-sts-token/post-sts-header-before/post-sts-header-before",
    "post-vanilla-empty-query-value/post-vanilla-empty-query-value",
    "post-vanilla-query/post-vanilla-query",
    "post-vanilla/post-vanilla",
    "post-x-www-form-urlencoded-parameters/post-x-www-form-urlencoded-parameters",
];

pub fn parse_sreq(data: &[u8]) -> Option<WireRequest> {
    let nl = data.iter().position(|c| *c == b'\n')?;
    let first = &data[..nl];
    let first = if first.last() == Some(&b'\r') { &first[..first.len() - 1] } else { first };
    let sp1 = first.iter().position(|c| *c == b' ')?;
    let sp2 = first.iter().rposition(|c| *c == b' ')?;
    let method = String::from_utf8_lossy(&first[..sp1]).to_string();
    // the target may contain raw UTF-8 (get-utf8): escape non-ASCII bytes the way an HTTP front end would
    let mut uri = String::new();
    for &b in &first[sp1 + 1..sp2] {
        if b >= 0x80 || b == b' ' {
            uri.push_str(&format!("%{:02X}", b));
        } else {
            uri.push(b as char);
        }
    }
    let mut headers: Vec<(String, B)> = Vec::new();
    let mut pos = nl + 1;
    loop {
        if pos >= data.len() {
            break;
        }
        let end = data[pos..].iter().position(|c| *c == b'\n').map(|p| pos + p).unwrap_or(data.len());
        let mut line = &data[pos..end];
        if line.last() == Some(&b'\r') {
            line = &line[..line.len() - 1];
        }
        pos = (end + 1).min(data.len());
        if line.is_empty() {
            break;
        }
        if line[0] == b' ' || line[0] == b'\t' {
            if let Some(last) = headers.last_mut() {
                last.1 .0.push(b' ');
                last.1 .0.extend_from_slice(trim_ws(line));
            }
            continue;
        }
        let c = line.iter().position(|c| *c == b':')?;
        headers.push((String::from_utf8_lossy(&line[..c]).to_string(), B(trim_ws(&line[c + 1..]).to_vec())));
    }
    Some(WireRequest { method, uri, version: 11, headers, body: B(data[pos.min(data.len())..].to_vec()) })
}

fn strip_cr(mut v: Vec<u8>) -> Vec<u8> {
    v.retain(|c| *c != b'\r');
    v
}

pub fn self_test() -> Result<usize, String> {
    if !std::path::Path::new(SUITE).is_dir() {
        return Ok(0);
    }
    let mut n = 0;
    for v in VECTORS {
        let base = format!("{}/{}", SUITE, v);
        let Ok(sreq) = std::fs::read(format!("{}.sreq", base)) else { continue };
        let Ok(creq) = std::fs::read(format!("{}.creq", base)) else { continue };
        let Ok(sts) = std::fs::read(format!("{}.sts", base)) else { continue };
        let req = parse_sreq(&sreq).ok_or_else(|| format!("model self-test: cannot parse {}.sreq", v))?;
        let token = req.header_first("x-amz-security-token").map(|t| latin1(&t.0));
        let case = Case {
            req,
            cfg: ServerConfig {
                region: "us-east-1".into(),
                service: "service".into(),
                now: Instant { secs: 1440938160, nanos: 0 },
                s3: false,
                fold: true,
                reqs: Reqs::default(),
            },
            prov: ProviderScript {
                keys: vec![KeyEntry {
                    access_key: "AKIDEXAMPLE".into(),
                    token,
                    secret: "wJalrXUtnFEMI/K7MDENG+bPxRfiCYEXAMPLEKEY".into(),
                    derive_as: None,
                    principal: PrincipalSpec::Empty,
                    session: vec![],
                }],
                ..ProviderScript::default()
            },
        };
        let a = analyze(&case);
        let got_creq = a.creq.clone().unwrap_or_default();
        if got_creq != strip_cr(creq.clone()) {
            return Err(format!(
                "model self-test {}: canonical request differs from AWS's\n--- model\n{}\n--- aws\n{}",
                v,
                String::from_utf8_lossy(&got_creq),
                String::from_utf8_lossy(&creq)
            ));
        }
        if a.sts.clone().unwrap_or_default() != strip_cr(sts) {
            return Err(format!("model self-test {}: string to sign differs from AWS's", v));
        }
        if !a.verdict().is_accept() {
            return Err(format!("model self-test {}: model does not accept AWS's signed request: {}", v, a.verdict().short()));
        }
        n += 1;
    }
    Ok(n)
}
