//! Reference signer: turns an unsigned wire request into a signed one. Uses only the model.

use super::canon::pct_encode;
use super::crypto::*;
use super::verify::*;
use crate::types::*;
use serde::{Deserialize, Serialize};

#[derive(Clone, Debug, PartialEq, Eq, Serialize, Deserialize)]
pub struct SignSpec {
    pub carrier: Carrier,
    pub access_key: String,
    pub secret: String,
    pub token: Option<String>,
    /// timestamp exactly as it is to appear (header value, or decoded query value)
    pub ts_text: String,
    /// header carrier: send the timestamp in `Date` instead of `X-Amz-Date`
    pub use_date_header: bool,
    /// (date8, region, service, terminator); None = derived from the timestamp and the server config
    pub scope: Option<(String, String, String, String)>,
    /// lower-case names; sorted by the signer unless `keep_order`
    pub signed_headers: Vec<String>,
    pub keep_order: bool,
    /// header carrier: order of Credential(0) / SignedHeaders(1) / Signature(2)
    pub param_order: [u8; 3],
    /// header carrier: separator between parameters: 0 ", "  1 ","  2 " , "  3 ",  "  4 ", , " (an empty element)  5 ",,"  6-8 with horizontal tabs
    pub sep: u8,
    /// query carrier: leave '/', ';' and ':' unescaped in the X-Amz-* values
    pub loose_escapes: bool,
    /// query carrier: put the X-Amz-* parameters first instead of last
    pub auth_first: bool,
    /// query carrier + form folding: put the X-Amz-* parameters into the body instead of the URL
    pub auth_in_body: bool,
    /// names as spelled on the wire for the headers the signer adds
    pub date_header_name: String,
    pub token_header_name: String,
    pub auth_header_name: String,
}

impl SignSpec {
    pub fn basic(carrier: Carrier, access_key: &str, secret: &str, ts_text: &str) -> SignSpec {
        SignSpec {
            carrier,
            access_key: access_key.into(),
            secret: secret.into(),
            token: None,
            ts_text: ts_text.into(),
            use_date_header: false,
            scope: None,
            signed_headers: vec!["host".into(), "x-amz-date".into()],
            keep_order: false,
            param_order: [0, 1, 2],
            sep: 0,
            loose_escapes: false,
            auth_first: false,
            auth_in_body: false,
            date_header_name: "X-Amz-Date".into(),
            token_header_name: "X-Amz-Security-Token".into(),
            auth_header_name: "Authorization".into(),
        }
    }
}

pub const PLACEHOLDER_SIG: &str = "0000000000000000000000000000000000000000000000000000000000000000";

fn enc_q(s: &str, loose: bool) -> String {
    if !loose {
        return pct_encode(s.as_bytes());
    }
    let mut out = String::new();
    for &b in s.as_bytes() {
        if b == b'/' || b == b';' || b == b':' || b == b',' {
            out.push(b as char);
        } else {
            out.push_str(&pct_encode(&[b]));
        }
    }
    out
}

/// Everything the signer produced.
#[derive(Clone, Debug)]
pub struct Signed {
    pub req: WireRequest,
    pub signature: String,
    pub credential: String,
    pub sts: Vec<u8>,
    pub creq: Vec<u8>,
    pub key: [u8; 32],
}

/// Add the authentication material to `base` with a given signature string (no signing).
pub fn attach(base: &WireRequest, cfg: &ServerConfig, spec: &SignSpec, credential: &str, sig: &str) -> WireRequest {
    let mut req = base.clone();
    let signed = {
        let mut s = spec.signed_headers.clone();
        if !spec.keep_order {
            s.sort();
        }
        s.join(";")
    };
    match spec.carrier {
        Carrier::Header => {
            let name = if spec.use_date_header { "Date".to_string() } else { spec.date_header_name.clone() };
            req.headers.push((name, B::from(spec.ts_text.as_str())));
            if let Some(t) = &spec.token {
                req.headers.push((spec.token_header_name.clone(), B::from(t.as_str())));
            }
            let parts = [
                format!("Credential={}", credential),
                format!("SignedHeaders={}", signed),
                format!("Signature={}", sig),
            ];
            let sep = match spec.sep {
                0 => ", ",
                1 => ",",
                2 => " , ",
                3 => ",  ",
                4 => ", , ",
                5 => ",,",
                6 => ",\t",
                7 => " ,\t ",
                _ => "\t, ",
            };
            let v = format!(
                "AWS4-HMAC-SHA256 {}{}{}{}{}",
                parts[spec.param_order[0] as usize % 3],
                sep,
                parts[spec.param_order[1] as usize % 3],
                sep,
                parts[spec.param_order[2] as usize % 3]
            );
            req.headers.push((spec.auth_header_name.clone(), B::from(v)));
        }
        Carrier::Query => {
            let l = spec.loose_escapes;
            let mut ps = vec![
                "X-Amz-Algorithm=AWS4-HMAC-SHA256".to_string(),
                format!("X-Amz-Credential={}", enc_q(credential, l)),
                format!("X-Amz-Date={}", enc_q(&spec.ts_text, l)),
                format!("X-Amz-SignedHeaders={}", enc_q(&signed, l)),
            ];
            if let Some(t) = &spec.token {
                ps.push(format!("X-Amz-Security-Token={}", enc_q(t, false)));
            }
            ps.push(format!("X-Amz-Signature={}", enc_q(sig, false)));
            let auth = ps.join("&");
            if spec.auth_in_body && cfg.fold {
                let mut b = req.body.0.clone();
                if spec.auth_first {
                    let mut nb = auth.into_bytes();
                    if !b.is_empty() {
                        nb.push(b'&');
                        nb.extend_from_slice(&b);
                    }
                    b = nb;
                } else {
                    if !b.is_empty() {
                        b.push(b'&');
                    }
                    b.extend_from_slice(auth.as_bytes());
                }
                req.body = B(b);
            } else {
                let (path, query) = match req.uri.find('?') {
                    Some(p) => (req.uri[..p].to_string(), Some(req.uri[p + 1..].to_string())),
                    None => (req.uri.clone(), None),
                };
                let nq = match query {
                    Some(q) if !q.is_empty() => {
                        if spec.auth_first {
                            format!("{}&{}", auth, q)
                        } else {
                            format!("{}&{}", q, auth)
                        }
                    }
                    _ => auth,
                };
                req.uri = format!("{}?{}", path, nq);
            }
        }
    }
    req
}

pub fn default_scope(cfg: &ServerConfig, spec: &SignSpec) -> Result<(String, String, String, String), String> {
    if let Some(s) = &spec.scope {
        return Ok(s.clone());
    }
    let inst = match super::time::parse_iso8601(spec.ts_text.trim_matches(' ').as_bytes()) {
        super::time::IsoVerdict::Accept(i) => i,
        super::time::IsoVerdict::Unspecified(_, Some(i)) => i,
        _ => return Err("timestamp does not parse; give an explicit scope".into()),
    };
    Ok((inst.date8(), cfg.region.clone(), cfg.service.clone(), "aws4_request".into()))
}

/// Sign `base` for `cfg` according to `spec`.
pub fn sign(base: &WireRequest, cfg: &ServerConfig, spec: &SignSpec) -> Result<Signed, String> {
    let scope = default_scope(cfg, spec)?;
    let credential = format!("{}/{}/{}/{}/{}", spec.access_key, scope.0, scope.1, scope.2, scope.3);
    sign_full(base, cfg, spec, &credential, (&scope.0, &scope.1, &scope.2))
}

/// Sign with an explicit credential string (any shape) under the key derived for `key_scope`
/// = (date8, region, service).
pub fn sign_full(
    base: &WireRequest,
    cfg: &ServerConfig,
    spec: &SignSpec,
    credential: &str,
    key_scope: (&str, &str, &str),
) -> Result<Signed, String> {
    let probe = attach(base, cfg, spec, credential, PLACEHOLDER_SIG);
    let case = Case { req: probe, cfg: cfg.clone(), prov: ProviderScript::default() };
    let a = analyze(&case);
    let sts = a.sts.clone().ok_or_else(|| format!("model cannot form a string-to-sign: {}", a.verdict().short()))?;
    let creq = a.creq.clone().unwrap();
    let key = key_chain(spec.secret.as_bytes(), key_scope.0, key_scope.1, key_scope.2)[3];
    let sig = hex_lower(&hmac_sha256(&key, &sts));
    let req = attach(base, cfg, spec, credential, &sig);
    Ok(Signed { req, signature: sig, credential: credential.to_string(), sts, creq, key })
}
