//! Reference calendar arithmetic and ISO-8601 parser (no chrono). Instants are (seconds since
//! 1970-01-01T00:00:00Z, nanoseconds) in the proleptic Gregorian calendar.

use serde::{Deserialize, Serialize};

#[derive(Debug, Clone, Copy, PartialEq, Eq, PartialOrd, Ord, Serialize, Deserialize, Hash)]
pub struct Instant {
    pub secs: i64,
    pub nanos: u32,
}

impl Instant {
    pub fn total_nanos(&self) -> i128 {
        self.secs as i128 * 1_000_000_000 + self.nanos as i128
    }
    pub fn from_total_nanos(n: i128) -> Instant {
        let secs = n.div_euclid(1_000_000_000) as i64;
        let nanos = n.rem_euclid(1_000_000_000) as u32;
        Instant { secs, nanos }
    }
    pub fn add_nanos(&self, d: i128) -> Instant {
        Instant::from_total_nanos(self.total_nanos() + d)
    }
    /// (year, month, day, hour, minute, second) in UTC.
    pub fn civil(&self) -> (i64, u32, u32, u32, u32, u32) {
        let days = self.secs.div_euclid(86400);
        let sod = self.secs.rem_euclid(86400) as u32;
        let (y, m, d) = civil_from_days(days);
        (y, m, d, sod / 3600, sod / 60 % 60, sod % 60)
    }
    /// YYYYMMDD in UTC.
    pub fn date8(&self) -> String {
        let (y, m, d, ..) = self.civil();
        format!("{:04}{:02}{:02}", y, m, d)
    }
    /// YYYYMMDD'T'hhmmss'Z' in UTC.
    pub fn compact(&self) -> String {
        let (y, m, d, hh, mm, ss) = self.civil();
        format!("{:04}{:02}{:02}T{:02}{:02}{:02}Z", y, m, d, hh, mm, ss)
    }
    pub fn from_civil(y: i64, m: u32, d: u32, hh: u32, mm: u32, ss: u32, nanos: u32) -> Instant {
        let days = days_from_civil(y, m, d);
        Instant { secs: days * 86400 + hh as i64 * 3600 + mm as i64 * 60 + ss as i64, nanos }
    }
    pub fn year(&self) -> i64 {
        self.civil().0
    }
}

pub fn is_leap(y: i64) -> bool {
    (y % 4 == 0 && y % 100 != 0) || y % 400 == 0
}

pub fn days_in_month(y: i64, m: u32) -> u32 {
    match m {
        1 | 3 | 5 | 7 | 8 | 10 | 12 => 31,
        4 | 6 | 9 | 11 => 30,
        2 => {
            if is_leap(y) {
                29
            } else {
                28
            }
        }
        _ => 0,
    }
}

/// Days since 1970-01-01 (H. Hinnant's algorithm).
pub fn days_from_civil(y: i64, m: u32, d: u32) -> i64 {
    let y = if m <= 2 { y - 1 } else { y };
    let era = y.div_euclid(400);
    let yoe = y.rem_euclid(400);
    let mp = (m as i64 + 9) % 12;
    let doy = (153 * mp + 2) / 5 + d as i64 - 1;
    let doe = yoe * 365 + yoe / 4 - yoe / 100 + doy;
    era * 146097 + doe - 719468
}

pub fn civil_from_days(z: i64) -> (i64, u32, u32) {
    let z = z + 719468;
    let era = z.div_euclid(146097);
    let doe = z.rem_euclid(146097);
    let yoe = (doe - doe / 1460 + doe / 36524 - doe / 146096) / 365;
    let y = yoe + era * 400;
    let doy = doe - (365 * yoe + yoe / 4 - yoe / 100);
    let mp = (5 * doy + 2) / 153;
    let d = (doy - (153 * mp + 2) / 5 + 1) as u32;
    let m = if mp < 10 { mp + 3 } else { mp - 9 } as u32;
    (if m <= 2 { y + 1 } else { y }, m, d)
}

/// Verdict of the reference ISO-8601 parser.
#[derive(Debug, Clone, PartialEq, Eq)]
pub enum IsoVerdict {
    /// well-formed per the property: must be accepted and denote this instant
    Accept(Instant),
    /// must be refused: (reason)
    Reject(&'static str),
    /// the property text does not pin the behaviour; if accepted the instant must be this one (when Some)
    Unspecified(&'static str, Option<Instant>),
}

struct P<'a> {
    s: &'a [u8],
    i: usize,
}

impl<'a> P<'a> {
    fn digits(&mut self, n: usize) -> Option<u32> {
        if self.i + n > self.s.len() {
            return None;
        }
        let mut v = 0u32;
        for k in 0..n {
            let c = self.s[self.i + k];
            if !c.is_ascii_digit() {
                return None;
            }
            v = v * 10 + (c - b'0') as u32;
        }
        self.i += n;
        Some(v)
    }
    fn eat(&mut self, c: u8) -> bool {
        if self.i < self.s.len() && self.s[self.i] == c {
            self.i += 1;
            true
        } else {
            false
        }
    }
    fn peek(&self) -> Option<u8> {
        self.s.get(self.i).copied()
    }
}

/// Parse `YYYY[-]MM[-]DD 'T' hh[:]mm[:]ss [(.|,)f+] (Z | (+|-)hh[:]mm)`.
pub fn parse_iso8601(s: &[u8]) -> IsoVerdict {
    let v = parse_iso8601_inner(s);
    if let IsoVerdict::Unspecified(_, None) = v {
        // Not of the specified shape as a whole. If it is a fully valid timestamp preceded by extra
        // characters, the property does say it must be refused.
        for k in 1..=3usize.min(s.len()) {
            if let IsoVerdict::Accept(_) = parse_iso8601_inner(&s[k..]) {
                return IsoVerdict::Reject("leading extra characters");
            }
        }
    }
    v
}

const SHAPE: &str = "not of the date-time shape the property describes (reduced precision, other designators, ...)";

fn parse_iso8601_inner(s: &[u8]) -> IsoVerdict {
    use IsoVerdict::*;
    let mut p = P { s, i: 0 };
    let mut unspecified: Option<&'static str> = None;
    let Some(year) = p.digits(4) else { return Unspecified(SHAPE, None) };
    let d1 = p.eat(b'-');
    let Some(month) = p.digits(2) else { return Unspecified(SHAPE, None) };
    let d2 = p.eat(b'-');
    let Some(day) = p.digits(2) else { return Unspecified(SHAPE, None) };
    match p.peek() {
        Some(b'T') => {
            p.i += 1;
        }
        // ISO 8601 designators are capital letters (the property: "with a Z ... zone"; RFC 3339's "may be lower case" is
        // a different profile): a lower-case letter in that place is an extra character, not a designator
        Some(b't') => return Reject("lower-case t is not the time designator"),
        _ => return Unspecified(SHAPE, None),
    }
    let Some(hour) = p.digits(2) else { return Unspecified(SHAPE, None) };
    let c1 = p.eat(b':');
    let Some(minute) = p.digits(2) else { return Unspecified(SHAPE, None) };
    let c2 = p.eat(b':');
    let Some(second) = p.digits(2) else { return Unspecified(SHAPE, None) };
    let mut nanos: u32 = 0;
    if matches!(p.peek(), Some(b'.') | Some(b',')) {
        p.i += 1;
        let start = p.i;
        let mut ndig = 0;
        while let Some(c) = p.peek() {
            if c.is_ascii_digit() {
                if ndig < 9 {
                    nanos = nanos * 10 + (c - b'0') as u32;
                    ndig += 1;
                }
                p.i += 1;
            } else {
                break;
            }
        }
        if p.i == start {
            return Unspecified(SHAPE, None);
        }
        while ndig < 9 {
            nanos *= 10;
            ndig += 1;
        }
    }
    let offset_secs: i64;
    let mut zone_colon: Option<bool> = None;
    match p.peek() {
        Some(b'Z') => {
            p.i += 1;
            offset_secs = 0;
        }
        Some(sign @ (b'+' | b'-')) => {
            p.i += 1;
            let Some(zh) = p.digits(2) else { return Unspecified(SHAPE, None) };
            let zc = p.eat(b':');
            zone_colon = Some(zc);
            let Some(zm) = p.digits(2) else { return Unspecified(SHAPE, None) };
            if zm > 59 {
                return Reject("zone minute range");
            }
            if zh > 23 {
                return Reject("zone hour range");
            }
            if zh > 14 || (zh == 14 && zm > 0) {
                unspecified = Some("zone offset beyond +-14:00");
            }
            let v = zh as i64 * 3600 + zm as i64 * 60;
            offset_secs = if sign == b'-' { -v } else { v };
        }
        Some(b'z') => return Reject("lower-case z is not a zone designator"),
        _ => return Reject("missing zone designator"),
    }
    if p.i != s.len() {
        return Reject("trailing characters");
    }
    if month < 1 || month > 12 {
        return Reject("month range");
    }
    if day < 1 || day > days_in_month(year as i64, month) {
        return Reject("day range");
    }
    if hour > 23 {
        return Reject("hour range");
    }
    if minute > 59 {
        return Reject("minute range");
    }
    if second > 59 {
        return Reject("second range");
    }
    // Form: pure basic or pure extended (date part and time part each consistent, and with each other).
    let date_mixed = d1 != d2;
    let time_mixed = c1 != c2;
    let cross_mixed = d1 != c1;
    if date_mixed || time_mixed {
        unspecified = Some("mixed basic/extended separators within date or time");
    } else if cross_mixed {
        unspecified = Some("basic date with extended time or vice versa");
    } else if let Some(zc) = zone_colon {
        if zc != c1 {
            // e.g. 2020-01-01T00:00:00+0100 : common in practice, still not pinned by the text
            unspecified = unspecified.or(Some("zone separator style differs from time style"));
        }
    }
    if year == 0 {
        unspecified = Some("year 0000");
    }
    let local = Instant::from_civil(year as i64, month, day, hour, minute, second, nanos);
    let inst = Instant { secs: local.secs - offset_secs, nanos };
    let y = inst.year();
    if y < 0 || y > 9999 {
        // the instant itself is outside years 0000..9999 once the offset is applied: YYYYMMDD'T'hhmmss'Z' cannot say it
        return Unspecified("instant outside years 0000-9999 after applying the offset", Some(inst));
    }
    match unspecified {
        Some(r) => Unspecified(r, Some(inst)),
        None => Accept(inst),
    }
}

/// Render an instant (must be a whole number of `frac_digits`-precision units) in a chosen style.
#[derive(Debug, Clone, Copy, PartialEq, Eq, Serialize, Deserialize)]
pub struct TsStyle {
    /// extended form (dashes and colons) vs basic
    pub extended: bool,
    /// None = 'Z'; Some(minutes east of UTC)
    pub offset_min: Option<i32>,
    /// number of fraction digits to print (0 = no fraction). Digits beyond 9 are printed as given by `extra`.
    pub frac_digits: u8,
    /// use ',' instead of '.'
    pub comma: bool,
    /// digit used for fraction positions beyond the ninth
    pub extra: u8,
}

impl TsStyle {
    pub const BASIC_Z: TsStyle = TsStyle { extended: false, offset_min: None, frac_digits: 0, comma: false, extra: 0 };
}

pub fn render(inst: Instant, st: TsStyle) -> String {
    let off = st.offset_min.unwrap_or(0) as i64 * 60;
    let local = Instant { secs: inst.secs + off, nanos: inst.nanos };
    let (y, m, d, hh, mm, ss) = local.civil();
    let mut s = if st.extended {
        format!("{:04}-{:02}-{:02}T{:02}:{:02}:{:02}", y, m, d, hh, mm, ss)
    } else {
        format!("{:04}{:02}{:02}T{:02}{:02}{:02}", y, m, d, hh, mm, ss)
    };
    if st.frac_digits > 0 {
        s.push(if st.comma { ',' } else { '.' });
        let nine = format!("{:09}", inst.nanos);
        for i in 0..st.frac_digits as usize {
            if i < 9 {
                s.push(nine.as_bytes()[i] as char);
            } else {
                s.push((b'0' + st.extra % 10) as char);
            }
        }
    }
    match st.offset_min {
        None => s.push('Z'),
        Some(o) => {
            let a = o.unsigned_abs();
            let sign = if o < 0 { '-' } else { '+' };
            if st.extended {
                s.push_str(&format!("{}{:02}:{:02}", sign, a / 60, a % 60));
            } else {
                s.push_str(&format!("{}{:02}{:02}", sign, a / 60, a % 60));
            }
        }
    }
    s
}

pub fn self_test() -> Result<(), String> {
    let e = |c: bool, m: &str| if c { Ok(()) } else { Err(format!("time self-test: {m}")) };
    e(days_from_civil(1970, 1, 1) == 0, "epoch")?;
    e(days_from_civil(2000, 3, 1) == 11017, "2000-03-01")?;
    e(civil_from_days(11017) == (2000, 3, 1), "inv 2000-03-01")?;
    e(days_from_civil(1, 1, 1) == -719162, "0001-01-01")?;
    e(civil_from_days(-719162) == (1, 1, 1), "inv 0001-01-01")?;
    e(days_from_civil(9999, 12, 31) == 2932896, "9999-12-31")?;
    for z in (-800000..3000000).step_by(997) {
        let (y, m, d) = civil_from_days(z);
        e(days_from_civil(y, m, d) == z, "roundtrip")?;
        e(d >= 1 && d <= days_in_month(y, m), "dim")?;
    }
    e(Instant { secs: 1440938160, nanos: 0 }.compact() == "20150830T123600Z", "compact")?;
    e(
        parse_iso8601(b"20150830T123600Z") == IsoVerdict::Accept(Instant { secs: 1440938160, nanos: 0 }),
        "parse basic",
    )?;
    e(
        parse_iso8601(b"2015-08-30T14:36:00.5+02:00") == IsoVerdict::Accept(Instant { secs: 1440938160, nanos: 500_000_000 }),
        "parse ext",
    )?;
    e(matches!(parse_iso8601(b"20150230T123600Z"), IsoVerdict::Reject(_)), "feb 30")?;
    e(matches!(parse_iso8601(b"20150830T123600"), IsoVerdict::Reject(_)), "no zone")?;
    let st = TsStyle { extended: true, offset_min: Some(-90), frac_digits: 3, comma: true, extra: 0 };
    let i = Instant { secs: 1440938160, nanos: 123_000_000 };
    e(render(i, st) == "2015-08-30T11:06:00,123-01:30", "render")?;
    e(parse_iso8601(render(i, st).as_bytes()) == IsoVerdict::Accept(i), "render/parse")?;
    Ok(())
}
