//! Reference SigV4 verifier: applies the documented rule order to a wire request and a server
//! configuration and says what must happen -- accept, reject with a kind, or unspecified.
//! Never calls the crate under test.

use super::canon::*;
use super::crypto::*;
use super::time::*;
use crate::types::*;

#[derive(Clone, Debug, PartialEq, Eq)]
pub enum Verdict {
    Accept,
    /// must be refused with one of `kinds`; `rank` is the documented rule number that fails first
    Reject { kinds: Vec<Kind>, rank: u8, why: String },
    /// the properties do not pin the outcome from rule `rank` on
    Unspecified { rank: u8, why: String },
}

impl Verdict {
    pub fn is_accept(&self) -> bool {
        matches!(self, Verdict::Accept)
    }
    pub fn is_specified(&self) -> bool {
        !matches!(self, Verdict::Unspecified { .. })
    }
    pub fn rank(&self) -> u8 {
        match self {
            Verdict::Accept => 99,
            Verdict::Reject { rank, .. } | Verdict::Unspecified { rank, .. } => *rank,
        }
    }
    pub fn short(&self) -> String {
        match self {
            Verdict::Accept => "Accept".into(),
            Verdict::Reject { kinds, rank, why } => format!("Reject{:?}@{} ({})", kinds, rank, why),
            Verdict::Unspecified { rank, why } => format!("Unspecified@{} ({})", rank, why),
        }
    }
}

pub const R_PATH: u8 = 1;
pub const R_QUERY: u8 = 4;
pub const R_CARRIER: u8 = 5;
pub const R_ALGORITHM: u8 = 6;
pub const R_SYNTAX: u8 = 7;
pub const R_MISSING: u8 = 8;
pub const R_SIGNED_HEADERS: u8 = 9;
pub const R_DATE: u8 = 10;
pub const R_EXPIRED: u8 = 11;
pub const R_FUTURE: u8 = 12;
pub const R_ARITY: u8 = 13;
pub const R_SCOPE: u8 = 14;
pub const R_PROVIDER: u8 = 15;
pub const R_SIGNATURE: u8 = 16;

#[derive(Clone, Copy, Debug, PartialEq, Eq, serde::Serialize, serde::Deserialize, Hash)]
pub enum Carrier {
    Header,
    Query,
}

/// What the provider script yields for a query (pure function shared by the model and the real
/// scripted provider; the key bytes come from the model's own HMAC chain).
#[derive(Clone, Debug, PartialEq, Eq)]
pub enum ProvOutcome {
    Key { entry: usize, key: [u8; 32] },
    Err(Kind, String),
    Foreign(String),
}

pub fn provider_outcome(script: &ProviderScript, q: &KeyQuery) -> ProvOutcome {
    let ans = |a: &Answer| -> ProvOutcome {
        match a {
            Answer::SigErr(k, m) => ProvOutcome::Err(*k, m.clone()),
            Answer::Foreign(m) => ProvOutcome::Foreign(m.clone()),
            Answer::Lookup => {
                for (i, e) in script.keys.iter().enumerate() {
                    if e.access_key == q.access_key && e.token == q.token {
                        let (d, r, s) = match &e.derive_as {
                            Some((d, r, s)) => (d.as_str(), r.as_str(), s.as_str()),
                            None => (q.date8.as_str(), q.region.as_str(), q.service.as_str()),
                        };
                        return ProvOutcome::Key { entry: i, key: key_chain(e.secret.as_bytes(), d, r, s)[3] };
                    }
                }
                ProvOutcome::Err(Kind::InvalidClientTokenId, format!("unknown access key {}", q.access_key))
            }
        }
    };
    if let Some(e) = &script.ready_err {
        return match e {
            Answer::Lookup => ProvOutcome::Foreign("not ready".into()),
            other => ans(other),
        };
    }
    ans(&script.answer)
}

#[derive(Clone, Debug, Default)]
pub struct Analysis {
    pub verdict: Option<Verdict>,
    /// Some(n): the provider must be called exactly n times; None: not asserted
    pub provider_calls: Option<u8>,
    pub carrier: Option<Carrier>,
    pub folded: bool,
    pub canonical_path: Option<String>,
    /// decoded URL pairs followed by decoded body pairs when folded
    pub merged_pairs: Vec<(Vec<u8>, Vec<u8>)>,
    pub url_pairs: Vec<(Vec<u8>, Vec<u8>)>,
    pub body_pairs: Vec<(Vec<u8>, Vec<u8>)>,
    pub canonical_query: Option<String>,
    pub signed_headers: Vec<String>,
    pub creq: Option<Vec<u8>>,
    pub sts: Option<Vec<u8>>,
    pub instant: Option<Instant>,
    pub timestamp_text: Option<Vec<u8>>,
    pub credential: Option<Vec<u8>>,
    pub presented_sig: Option<Vec<u8>>,
    pub token: Option<Vec<u8>>,
    pub key_query: Option<KeyQuery>,
    pub prov: Option<ProvOutcome>,
    pub expected_sig: Option<String>,
    /// reasons that make the final signature comparison unspecified
    pub late_unspecified: Vec<String>,
}

impl Analysis {
    pub fn verdict(&self) -> &Verdict {
        self.verdict.as_ref().unwrap()
    }
}

pub fn latin1(b: &[u8]) -> String {
    b.iter().map(|c| *c as char).collect()
}

fn is_http_ws(b: u8) -> bool {
    matches!(b, b'\t' | b'\n' | 0x0b | 0x0c | b'\r' | b' ')
}

pub fn trim_ws(mut b: &[u8]) -> &[u8] {
    while let [f, rest @ ..] = b {
        if is_http_ws(*f) {
            b = rest;
        } else {
            break;
        }
    }
    while let [rest @ .., l] = b {
        if is_http_ws(*l) {
            b = rest;
        } else {
            break;
        }
    }
    b
}

pub const FORM: &str = "application/x-www-form-urlencoded";
pub const UTF8_LABELS: [&str; 3] = ["utf-8", "utf8", "unicode-1-1-utf-8"];
/// Labels that are definitely not registered charset names.
pub const UNKNOWN_LABELS: [&str; 8] =
    ["klingon", "utf-9", "x-no-such-charset", "utf-8x", "ebcdic-fr-2", "0", "none", "utf_8_sig"];

pub fn split_first<'a>(b: &'a [u8], sep: u8) -> (&'a [u8], Option<&'a [u8]>) {
    match b.iter().position(|c| *c == sep) {
        Some(p) => (&b[..p], Some(&b[p + 1..])),
        None => (b, None),
    }
}

/// How the body is to be treated.
#[derive(Clone, Debug, PartialEq, Eq)]
pub enum BodyMode {
    /// hashed verbatim
    Verbatim,
    /// parsed as UTF-8 form parameters and folded into the query
    FoldUtf8,
    /// must fail with InvalidBodyEncoding
    BadCharset(String),
    /// the property text does not say
    Unspecified(String),
}

pub fn body_mode(req: &WireRequest, fold: bool) -> BodyMode {
    if !fold {
        return BodyMode::Verbatim;
    }
    let cts: Vec<&B> = req.headers.iter().filter(|(n, _)| n.eq_ignore_ascii_case("content-type")).map(|(_, v)| v).collect();
    if cts.is_empty() {
        return BodyMode::Verbatim;
    }
    if cts.len() > 1 && cts.iter().any(|c| c.0 != cts[0].0) {
        return BodyMode::Unspecified("several differing Content-Type headers".into());
    }
    let ct = &cts[0].0;
    let mut parts = ct.split(|c| *c == b';');
    let media = trim_ws(parts.next().unwrap_or(b""));
    if media != FORM.as_bytes() {
        if media.eq_ignore_ascii_case(FORM.as_bytes()) {
            return BodyMode::Unspecified("media type differs from the form type only in letter case".into());
        }
        if media.len() != ct.len() && latin1(media).contains("x-www-form-urlencoded") {
            // e.g. odd whitespace forms -- keep clear of near misses
            if media.iter().any(|c| is_http_ws(*c)) {
                return BodyMode::Unspecified("whitespace inside the media type".into());
            }
        }
        return BodyMode::Verbatim;
    }
    let mut charsets: Vec<&[u8]> = Vec::new();
    let mut odd = false;
    for p in parts {
        let p = trim_ws(p);
        let (n, v) = split_first(p, b'=');
        let n = trim_ws(n);
        if n.eq_ignore_ascii_case(b"charset") {
            match v {
                Some(v) => charsets.push(v),
                None => odd = true,
            }
            if n.len() != p.len().min(n.len()) {
                odd = true;
            }
        }
    }
    if odd || charsets.len() > 1 {
        return BodyMode::Unspecified("irregular charset parameter".into());
    }
    match charsets.first() {
        None => BodyMode::FoldUtf8,
        Some(cs) => {
            let raw = latin1(cs);
            let l = raw.trim().to_ascii_lowercase();
            if raw != raw.trim() || raw.contains('"') || raw.contains('\'') {
                return BodyMode::Unspecified("quoted or padded charset value".into());
            }
            if UTF8_LABELS.contains(&l.as_str()) {
                BodyMode::FoldUtf8
            } else if UNKNOWN_LABELS.contains(&l.as_str()) {
                BodyMode::BadCharset(raw)
            } else {
                BodyMode::Unspecified(format!("charset '{}' is neither UTF-8 nor known-unknown", raw))
            }
        }
    }
}

fn is_amz_auth_name_loose(n: &[u8]) -> bool {
    // X-Amz-Signature is deliberately absent: the canonical query excludes only the parameter spelled
    // exactly so (C10), a differently cased name is an ordinary parameter and is covered by the signature.
    const NAMES: [&str; 5] = ["X-Amz-Algorithm", "X-Amz-Credential", "X-Amz-Date", "X-Amz-SignedHeaders", "X-Amz-Security-Token"];
    NAMES.iter().any(|x| n.eq_ignore_ascii_case(x.as_bytes()) && n != x.as_bytes())
}

fn first_value<'a>(pairs: &'a [(Vec<u8>, Vec<u8>)], name: &str) -> Option<&'a Vec<u8>> {
    pairs.iter().find(|(n, _)| n.as_slice() == name.as_bytes()).map(|(_, v)| v)
}

/// Apply the documented rules to the case.
pub fn analyze(case: &Case) -> Analysis {
    let req = &case.req;
    let cfg = &case.cfg;
    let mut a = Analysis::default();
    // the first failing rule, in documented order
    let mut fail: Option<Verdict> = None;
    macro_rules! reject {
        ($rank:expr, $kinds:expr, $why:expr) => {
            if fail.is_none() {
                fail = Some(Verdict::Reject { kinds: $kinds, rank: $rank, why: $why.to_string() });
            }
        };
    }
    macro_rules! unspec {
        ($rank:expr, $why:expr) => {
            if fail.is_none() {
                fail = Some(Verdict::Unspecified { rank: $rank, why: $why.to_string() });
            }
        };
    }

    // ---- rule 1: path
    let raw_path = req.path().as_bytes();
    match canonical_path(raw_path, cfg.s3) {
        Ok((p, dot_tail)) => {
            if dot_tail {
                a.late_unspecified.push("path ends in a dot segment (trailing-slash rule differs between RFC 3986 and the SDKs)".into());
            }
            a.canonical_path = Some(p);
        }
        Err(e) => reject!(R_PATH, vec![Kind::InvalidURIPath], format!("path: {:?}", e)),
    }

    // ---- rule 4: query string (+ folded body)
    let mut query_kinds: Vec<Kind> = Vec::new();
    let mut query_unspec: Option<String> = None;
    match parse_query(req.query().unwrap_or("").as_bytes()) {
        Ok(p) => a.url_pairs = p,
        Err(_) => query_kinds.push(Kind::MalformedQueryString),
    }
    let mode = body_mode(req, cfg.fold);
    match &mode {
        BodyMode::Verbatim => {}
        BodyMode::Unspecified(w) => query_unspec = Some(w.clone()),
        BodyMode::BadCharset(_) => query_kinds.push(Kind::InvalidBodyEncoding),
        BodyMode::FoldUtf8 => {
            // (a UTF-8 byte-order mark is three bytes of valid UTF-8: U+FEFF, part of the first parameter's name --
            // "no body parameter is dropped", "every body byte is covered by the signature")
            match std::str::from_utf8(&req.body.0) {
                Err(_) => query_kinds.push(Kind::InvalidBodyEncoding),
                Ok(s) => match parse_query(s.as_bytes()) {
                    Ok(p) => {
                        a.body_pairs = p;
                        a.folded = true;
                    }
                    Err(_) => query_kinds.push(Kind::MalformedQueryString),
                },
            }
        }
    }
    if !query_kinds.is_empty() {
        query_kinds.sort();
        query_kinds.dedup();
        reject!(R_QUERY, query_kinds.clone(), "query string / form body");
    } else if let Some(w) = &query_unspec {
        unspec!(R_QUERY, w);
    }
    a.merged_pairs = a.url_pairs.clone();
    a.merged_pairs.extend(a.body_pairs.iter().cloned());
    if a.merged_pairs.iter().any(|(n, _)| is_amz_auth_name_loose(n)) {
        unspec!(R_CARRIER, "an X-Amz-* authentication parameter name in different letter case");
    }
    a.canonical_query = Some(canonical_query(&a.merged_pairs));
    if a.folded {
        let len = a.canonical_path.as_ref().map(|p| p.len()).unwrap_or(1) + 1 + a.canonical_query.as_ref().unwrap().len();
        if len > 65_000 {
            // the rebuilt URI cannot be returned through http::request::Parts (64 KiB cap): acceptance is impossible by API
            unspec!(R_QUERY, "merged URI after folding exceeds what http::Uri can hold");
        }
    }

    // ---- rule 5: carrier
    let auth_headers: Vec<&B> =
        req.headers.iter().filter(|(n, _)| n.eq_ignore_ascii_case("authorization")).map(|(_, v)| v).collect();
    let alg_param = first_value(&a.merged_pairs, "X-Amz-Algorithm").cloned();
    let carrier = match (!auth_headers.is_empty(), alg_param.is_some()) {
        (true, true) => {
            reject!(R_CARRIER, vec![Kind::SignatureDoesNotMatch], "both carriers present");
            None
        }
        (false, false) => {
            reject!(R_CARRIER, vec![Kind::MissingAuthenticationToken], "no carrier");
            None
        }
        (true, false) => Some(Carrier::Header),
        (false, true) => Some(Carrier::Query),
    };
    a.carrier = carrier;

    let mut signed_raw: Option<Vec<Vec<u8>>> = None;
    match carrier {
        None => {}
        Some(Carrier::Header) => {
            let v = canonical_header_value(&auth_headers[0].0);
            // Optional white space around the header value and around each parameter is SP or HTAB (RFC 9110 OWS) and is
            // trimmed; the algorithm token, however, ends at the first SPACE (rule 6a): a tab does not end it.
            let v = trim_ws(&v).to_vec();
            let (alg, rest) = split_first(&v, b' ');
            if alg != b"AWS4-HMAC-SHA256" {
                if alg.eq_ignore_ascii_case(b"AWS4-HMAC-SHA256") {
                    unspec!(R_ALGORITHM, "algorithm token in different letter case");
                }
                reject!(R_ALGORITHM, vec![Kind::IncompleteSignature], "unsupported algorithm");
            }
            let mut params: Vec<(Vec<u8>, Vec<u8>)> = Vec::new();
            let mut syntax_bad = false;
            for p in rest.unwrap_or(b"").split(|c| *c == b',') {
                let p = trim_ws(p);
                if p.is_empty() {
                    continue;
                }
                match split_first(p, b'=') {
                    (k, Some(v)) => params.push((k.to_vec(), v.to_vec())),
                    (_, None) => syntax_bad = true,
                }
            }
            if syntax_bad {
                reject!(R_SYNTAX, vec![Kind::IncompleteSignature], "parameter without '='");
            }
            let last = |k: &str| params.iter().rev().find(|(n, _)| n.as_slice() == k.as_bytes()).map(|(_, v)| v.clone());
            for k in ["Credential", "SignedHeaders", "Signature"] {
                if last(k).is_none() && params.iter().any(|(n, _)| n.eq_ignore_ascii_case(k.as_bytes())) {
                    unspec!(R_MISSING, "Authorization parameter name in different letter case");
                }
            }
            a.credential = last("Credential");
            a.presented_sig = last("Signature");
            signed_raw = last("SignedHeaders").map(|s| s.split(|c| *c == b';').map(|x| x.to_vec()).collect());
            let xd = req.headers.iter().find(|(n, _)| n.eq_ignore_ascii_case("x-amz-date")).map(|(_, v)| v);
            let d = req.headers.iter().find(|(n, _)| n.eq_ignore_ascii_case("date")).map(|(_, v)| v);
            a.timestamp_text = xd.or(d).map(|v| canonical_header_value(&v.0));
            if a.credential.is_none() || a.presented_sig.is_none() || signed_raw.is_none() || a.timestamp_text.is_none() {
                reject!(R_MISSING, vec![Kind::IncompleteSignature], "missing Credential/SignedHeaders/Signature/date");
            }
            a.token = req
                .headers
                .iter()
                .find(|(n, _)| n.eq_ignore_ascii_case("x-amz-security-token"))
                .map(|(_, v)| canonical_header_value(&v.0));
        }
        Some(Carrier::Query) => {
            if alg_param.as_deref() != Some(b"AWS4-HMAC-SHA256".as_slice()) {
                if alg_param.as_deref().map(|x| x.eq_ignore_ascii_case(b"AWS4-HMAC-SHA256")) == Some(true) {
                    unspec!(R_ALGORITHM, "algorithm value in different letter case");
                }
                reject!(R_ALGORITHM, vec![Kind::MissingAuthenticationToken], "X-Amz-Algorithm is not AWS4-HMAC-SHA256");
            }
            a.credential = first_value(&a.merged_pairs, "X-Amz-Credential").cloned();
            a.presented_sig = first_value(&a.merged_pairs, "X-Amz-Signature").cloned();
            signed_raw = first_value(&a.merged_pairs, "X-Amz-SignedHeaders")
                .map(|s| s.split(|c| *c == b';').map(|x| x.to_vec()).collect());
            a.timestamp_text = first_value(&a.merged_pairs, "X-Amz-Date").cloned();
            if a.credential.is_none() || a.presented_sig.is_none() || signed_raw.is_none() || a.timestamp_text.is_none() {
                reject!(R_MISSING, vec![Kind::IncompleteSignature], "missing X-Amz-Credential/SignedHeaders/Signature/Date");
            }
            a.token = first_value(&a.merged_pairs, "X-Amz-Security-Token").cloned();
            // Values travel percent-encoded; decoded bytes that are not UTF-8 have no agreed text form.
            for v in [&a.credential, &a.presented_sig, &a.token, &a.timestamp_text].into_iter().flatten() {
                if !v.is_ascii() {
                    unspec!(R_MISSING, "non-ASCII bytes in a query-carried authentication value");
                }
            }
        }
    }

    // ---- rule 8 (+ declared requirements)
    if let Some(sr) = &signed_raw {
        let mut list: Vec<String> = sr.iter().map(|x| latin1(x)).collect();
        let irregular = list.iter().any(|h| {
            h.is_empty() || h.bytes().any(|c| c.is_ascii_uppercase() || c == b' ' || c == b'\t' || c >= 0x80)
        }) || {
            let mut s = list.clone();
            s.sort();
            s.dedup();
            s.len() != list.len()
        };
        if irregular {
            unspec!(R_SIGNED_HEADERS, "signed-header list has empty, duplicate, upper-case or padded entries");
        }
        // C11: the canonical form has the names in sorted order, whatever order the list was sent in
        let mut sorted = list.clone();
        sorted.sort();
        list = sorted;
        let has = |n: &str| list.iter().any(|h| h == n);
        let mut missing: Vec<String> = Vec::new();
        if !has("host") && !has(":authority") {
            missing.push("host".into());
        }
        for h in &cfg.reqs.always {
            let l = h.to_lowercase();
            if !has(&l) {
                missing.push(l);
            }
        }
        for h in &cfg.reqs.if_in_request {
            let l = h.to_lowercase();
            if req.has_header(&l) && !has(&l) {
                missing.push(l);
            }
        }
        for p in &cfg.reqs.prefixes {
            let pl = p.to_lowercase();
            for (n, _) in &req.headers {
                let nl = n.to_ascii_lowercase();
                if nl.starts_with(&pl) && !has(&nl) {
                    missing.push(nl);
                }
            }
        }
        if !missing.is_empty() {
            reject!(
                R_SIGNED_HEADERS,
                vec![Kind::SignatureDoesNotMatch],
                format!("required signed headers missing: {:?}", missing)
            );
        }
        for h in &list {
            if !req.has_header(h) {
                a.late_unspecified.push(format!("signed header '{}' is not in the request", h));
                break;
            }
        }
        a.signed_headers = list;
    }

    // ---- rule 9: date format
    if let Some(t) = &a.timestamp_text {
        if carrier == Some(Carrier::Header) && (t.first() == Some(&b'\t') || t.last() == Some(&b'\t')) {
            unspec!(R_DATE, "timestamp header value padded with tabs");
        }
        match parse_iso8601(t) {
            IsoVerdict::Accept(i) => a.instant = Some(i),
            IsoVerdict::Reject(w) => reject!(R_DATE, vec![Kind::IncompleteSignature], format!("date: {}", w)),
            IsoVerdict::Unspecified(w, i) => {
                a.instant = i;
                unspec!(R_DATE, format!("date: {}", w));
            }
        }
    }

    // ---- rules 10, 11: window
    if let Some(t) = a.instant {
        let delta = t.total_nanos() - cfg.now.total_nanos();
        let w: i128 = 900 * 1_000_000_000;
        if delta < -w {
            reject!(R_EXPIRED, vec![Kind::SignatureDoesNotMatch], "expired");
        } else if delta > w {
            reject!(R_FUTURE, vec![Kind::SignatureDoesNotMatch], "not yet current");
        }
    }

    // ---- rules 12, 13: credential
    let mut scope_text: Option<Vec<u8>> = None;
    if let Some(c) = &a.credential {
        if carrier == Some(Carrier::Header) && !c.is_ascii() {
            unspec!(R_ARITY, "non-ASCII bytes in the credential");
        }
        let parts: Vec<&[u8]> = c.split(|b| *b == b'/').collect();
        if let Some(p) = c.iter().position(|b| *b == b'/') {
            scope_text = Some(c[p + 1..].to_vec());
        }
        if parts.len() != 5 {
            reject!(R_ARITY, vec![Kind::IncompleteSignature], format!("credential has {} parts", parts.len()));
        } else if let Some(t) = a.instant {
            let ok = parts[1] == t.date8().as_bytes()
                && parts[2] == cfg.region.as_bytes()
                && parts[3] == cfg.service.as_bytes()
                && parts[4] == b"aws4_request";
            if !ok {
                if !cfg.region.is_ascii() || !cfg.service.is_ascii() {
                    unspec!(R_SCOPE, "non-ASCII region/service configured");
                }
                reject!(R_SCOPE, vec![Kind::SignatureDoesNotMatch], "credential scope mismatch");
            }
            if let Some(tok) = &a.token {
                if !tok.is_ascii() {
                    unspec!(R_PROVIDER, "non-ASCII session token");
                }
            }
            a.key_query = Some(KeyQuery {
                access_key: latin1(parts[0]),
                token: a.token.as_ref().map(|t| latin1(t)),
                date8: t.date8(),
                region: cfg.region.clone(),
                service: cfg.service.clone(),
            });
        }
    }

    // ---- canonical request and string to sign (computed whenever its ingredients exist)
    if let (Some(p), Some(q), true) = (&a.canonical_path, &a.canonical_query, signed_raw.is_some()) {
        let mut creq = Vec::new();
        creq.extend_from_slice(req.method.as_bytes());
        creq.push(b'\n');
        creq.extend_from_slice(p.as_bytes());
        creq.push(b'\n');
        creq.extend_from_slice(q.as_bytes());
        creq.push(b'\n');
        let hdrs: Vec<(String, Vec<u8>)> = req.headers.iter().map(|(n, v)| (n.clone(), v.0.clone())).collect();
        creq.extend_from_slice(&canonical_headers_block(&hdrs, &a.signed_headers));
        creq.push(b'\n');
        creq.extend_from_slice(a.signed_headers.join(";").as_bytes());
        creq.push(b'\n');
        let payload: &[u8] = if a.folded { b"" } else { &req.body.0 };
        creq.extend_from_slice(hex_lower(&sha256(payload)).as_bytes());
        if let (Some(t), Some(scope)) = (a.instant, &scope_text) {
            let mut sts = Vec::new();
            sts.extend_from_slice(b"AWS4-HMAC-SHA256\n");
            sts.extend_from_slice(t.compact().as_bytes());
            sts.push(b'\n');
            sts.extend_from_slice(scope);
            sts.push(b'\n');
            sts.extend_from_slice(hex_lower(&sha256(&creq)).as_bytes());
            a.sts = Some(sts);
        }
        a.creq = Some(creq);
    }

    // ---- rules 14, 15: provider; rule 16: signature
    if fail.is_none() {
        let q = a.key_query.clone().expect("key query exists when rules 1-13 pass");
        let out = provider_outcome(&case.prov, &q);
        match &out {
            ProvOutcome::Err(k, m) => reject!(R_PROVIDER, vec![*k], format!("provider error: {}", m)),
            ProvOutcome::Foreign(m) => reject!(R_PROVIDER, vec![Kind::InternalServiceError], format!("provider foreign error: {}", m)),
            ProvOutcome::Key { key, .. } => {
                let sts = a.sts.as_ref().expect("sts exists when rules 1-13 pass");
                let exp = hex_lower(&hmac_sha256(key, sts));
                let got = a.presented_sig.clone().unwrap_or_default();
                if got == exp.as_bytes() {
                    if !a.late_unspecified.is_empty() {
                        unspec!(R_SIGNATURE, a.late_unspecified.join("; "));
                    }
                } else if got.eq_ignore_ascii_case(exp.as_bytes()) {
                    unspec!(R_SIGNATURE, "signature differs from the expected one only in hex letter case");
                } else if !a.late_unspecified.is_empty() {
                    unspec!(R_SIGNATURE, a.late_unspecified.join("; "));
                } else {
                    reject!(R_SIGNATURE, vec![Kind::SignatureDoesNotMatch], "signature mismatch");
                }
                a.expected_sig = Some(exp);
            }
        }
        a.prov = Some(out);
    }

    let verdict = fail.unwrap_or(Verdict::Accept);
    a.provider_calls = match &verdict {
        Verdict::Accept => Some(1),
        Verdict::Reject { rank, .. } => Some(if *rank >= R_PROVIDER && case.prov.ready_err.is_none() { 1 } else { 0 }),
        Verdict::Unspecified { rank, .. } => {
            if *rank >= R_SIGNATURE {
                Some(1)
            } else {
                None
            }
        }
    };
    a.verdict = Some(verdict);
    a
}
