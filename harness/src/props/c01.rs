//! C01 -- forgery resistance: Ok from the crate implies the presented signature is the reference
//! HMAC of the request as received. Driven by single-component mutations of validly signed requests.

use super::common::*;
use crate::engine::*;
use crate::exec;
use crate::gen::*;
use crate::model::sign::attach;
use crate::model::verify::*;
use crate::types::*;
use proptest::prelude::*;
use serde::{Deserialize, Serialize};
use serde_json::json;

pub const RULE: &str = "generated: a reference-signed request (both carriers, all options, tokens, requirement sets) followed by exactly one edit from a catalogue (method; path/query/header/body byte, insertion, removal, duplication, value swap, letter case; timestamp +-1s; each credential component; provider key (secret, date, region, service); server region/service; signature: one hex digit at each position, truncated, extended, empty, zero, signature of another request, random; blind unsigned requests). In a second pass the unedited request is validated first and its edited twin directly afterwards on the same thread (state remembered between validations must not help a forgery). Oracle: crate Ok => the model (independent signer/verifier) says the presented signature is the HMAC of the request as received. Non-trivial: the edited request passes the model's rules 1-13 and is refused by the signature comparison (or by the scope rule); distinct by digest of (string-to-sign, key query, presented signature).";

#[derive(Clone, Debug, Serialize, Deserialize)]
pub enum Mutation {
    Method(u16),
    /// replace the character at (scaled) position of the request target by another unreserved one
    UriChar(u16, u16),
    /// insert text at (scaled) position of the request target
    UriInsert(u16, u16),
    /// delete the character at (scaled) position of the request target
    UriDelete(u16),
    ToggleTrailingSlash,
    /// respell an escaped space in the *path* as '+' (in a path '+' is a plus sign, not a space)
    PathSpaceToPlus,
    /// a path separator respelled as %2F, or an escaped slash respelled as a separator (the n-th candidate)
    PathSlashEscape(u16),
    /// the method tunnelled: the request becomes a POST (or GET) that names the signed method in an override header
    MethodTunnel(u8),
    AppendParam(u16),
    DuplicateParam(u16),
    RemoveParam(u16),
    /// header i (scaled), position (scaled), new byte
    HeaderByte(u16, u16, u8),
    HeaderCase(u16, u16),
    HeaderAddValue(u16),
    HeaderRemove(u16),
    HeaderSwapValues(u16),
    /// add or remove a port suffix on the Host value (":443", ":80", ":8443", ":")
    HostPort(u8),
    /// append / strip a short suffix on a header value (";", " x", ".", "/")
    HeaderSuffix(u16, u8),
    BodyFlip(u16),
    BodyAppend(u8),
    /// put something in FRONT of the body that a lenient reader might skip: byte-order marks, blanks, line breaks
    BodyPrefix(u8),
    BodyTruncate(u16),
    /// shift the stated timestamp by this many seconds, keep the old signature
    Timestamp(i8),
    /// rewrite the seconds field of the stated timestamp to 60 / 61 (a leap-second spelling), old signature kept
    TimestampLeapSecond(bool),
    /// edit credential component k (0 access key, 1 date, 2 region, 3 service, 4 terminator)
    Credential(u8, u16),
    ProviderSecret(u16),
    ProviderDerive(u8),
    ServerRegion(u16),
    ServerService(u16),
    FlipOption(bool),
    SigChar(u8, u8),
    SigTruncate(u8),
    SigExtend(u8),
    SigEmpty,
    SigZero,
    SigUpper,
    SigRandom([u8; 32]),
    /// take the signature of a differently built request
    SigOfOther(Box<Plan>),
    None,
}

#[derive(Clone, Debug, Serialize, Deserialize)]
pub struct Mutated {
    pub plan: Plan,
    pub mutation: Mutation,
}

pub fn mutation() -> BoxedStrategy<Mutation> {
    use Mutation::*;
    prop_oneof![
        1 => any::<u16>().prop_map(Method),
        4 => (any::<u16>(), any::<u16>()).prop_map(|(a, b)| UriChar(a, b)),
        2 => (any::<u16>(), any::<u16>()).prop_map(|(a, b)| UriInsert(a, b)),
        2 => any::<u16>().prop_map(UriDelete),
        1 => Just(ToggleTrailingSlash),
        1 => Just(PathSpaceToPlus),
        2 => any::<u16>().prop_map(PathSlashEscape),
        1 => any::<u8>().prop_map(MethodTunnel),
        1 => any::<u16>().prop_map(AppendParam),
        1 => any::<u16>().prop_map(DuplicateParam),
        1 => any::<u16>().prop_map(RemoveParam),
        4 => (any::<u16>(), any::<u16>(), 0x21u8..=0x7e).prop_map(|(a, b, c)| HeaderByte(a, b, c)),
        1 => (any::<u16>(), any::<u16>()).prop_map(|(a, b)| HeaderCase(a, b)),
        1 => any::<u16>().prop_map(HeaderAddValue),
        1 => any::<u16>().prop_map(HeaderRemove),
        1 => any::<u16>().prop_map(HeaderSwapValues),
        2 => any::<u8>().prop_map(HostPort),
        1 => (any::<u16>(), any::<u8>()).prop_map(|(a, b)| HeaderSuffix(a, b)),
        2 => any::<u16>().prop_map(BodyFlip),
        1 => any::<u8>().prop_map(BodyAppend),
        2 => any::<u8>().prop_map(BodyPrefix),
        1 => any::<u16>().prop_map(BodyTruncate),
        2 => prop_oneof![Just(1i8), Just(-1), Just(60), Just(-60), -120i8..120].prop_map(Timestamp),
        1 => any::<bool>().prop_map(TimestampLeapSecond),
        4 => (0u8..5, any::<u16>()).prop_map(|(k, v)| Credential(k, v)),
        2 => any::<u16>().prop_map(ProviderSecret),
        2 => (0u8..3).prop_map(ProviderDerive),
        1 => any::<u16>().prop_map(ServerRegion),
        1 => any::<u16>().prop_map(ServerService),
        1 => any::<bool>().prop_map(FlipOption),
        6 => (0u8..64, 0u8..16).prop_map(|(p, d)| SigChar(p, d)),
        1 => (0u8..64).prop_map(SigTruncate),
        1 => (0u8..16).prop_map(SigExtend),
        1 => Just(SigEmpty),
        1 => Just(SigZero),
        1 => Just(SigUpper),
        1 => any::<[u8; 32]>().prop_map(SigRandom),
        2 => plan(PlanOpts { plain_spelling: true, ..PlanOpts::default() }).prop_map(|p| SigOfOther(Box::new(p))),
    ]
    .boxed()
}

pub fn subs() -> Vec<Box<dyn AnySub>> {
    vec![
        Box::new(Sub {
            name: "mutate",
            quick: 60_000,
            thorough: 1_200_000,
            strat: || (plan(PlanOpts::default()), mutation()).prop_map(|(plan, mutation)| Mutated { plan, mutation }).boxed(),
            check: check_mutated,
        }),
        // state carried from one validation to the next on the same thread (a remembered key, scope or
        // canonical form) must not let the edited twin of a request that has just been accepted through
        Box::new(Sub {
            name: "accepted-original-then-edited-twin",
            quick: 25_000,
            thorough: 400_000,
            strat: || (plan(PlanOpts::default()), mutation()).prop_map(|(plan, mutation)| Mutated { plan, mutation }).boxed(),
            check: check_primed_mutated,
        }),
        // ... nor a request that is in flight on the same thread at the same time (each suspended in its key lookup)
        Box::new(Sub {
            name: "original-and-edited-twin-in-flight-together",
            quick: 12_000,
            thorough: 200_000,
            strat: || (plan(PlanOpts { rich_reqs: false, ..PlanOpts::default() }), mutation(), proptest::collection::vec(0u8..4, 1..10), 1u8..4).prop_map(|(plan, mutation, order, pending)| InFlight { m: Mutated { plan, mutation }, order, pending }).boxed(),
            check: check_in_flight,
        }),
        Box::new(Sub {
            name: "blind",
            quick: 10_000,
            thorough: 200_000,
            strat: || (plan(PlanOpts { plain_spelling: true, ..PlanOpts::default() }), "[0-9a-fA-F]{0,70}|[ -~]{0,20}").prop_map(|(p, s)| Blind { plan: p, sig: s }).boxed(),
            check: check_blind,
        }),
    ]
}

const UNRES: &[u8] = b"abcdefghijklmnopqrstuvwxyz0123456789-._~ABCDEF";
const INSERTS: &[&str] = &["/x", "x", "%41", "/", "/.", "/..", "&", "=", "a=b&", "%20", "+", "~", "//", "?"];
const HEX: &[u8] = b"0123456789abcdef";

fn find_header(req: &WireRequest, name_lc: &str) -> Option<usize> {
    req.headers.iter().position(|(n, _)| n.eq_ignore_ascii_case(name_lc))
}

/// Replace the presented signature (wherever the carrier put it) by `new`.
pub fn replace_signature(req: &mut WireRequest, old: &str, new: &str) -> bool {
    if let Some(i) = find_header(req, "authorization") {
        let v = latin1(&req.headers[i].1 .0);
        if let Some(p) = v.find(old) {
            let nv = format!("{}{}{}", &v[..p], new, &v[p + old.len()..]);
            req.headers[i].1 = B(nv.into_bytes());
            return true;
        }
        return false;
    }
    let needle = format!("X-Amz-Signature={}", old);
    let enc_new: String = crate::model::canon::pct_encode(new.as_bytes());
    if let Some(p) = req.uri.find(&needle) {
        req.uri = format!("{}X-Amz-Signature={}{}", &req.uri[..p], enc_new, &req.uri[p + needle.len()..]);
        return true;
    }
    let body = latin1(&req.body.0);
    if let Some(p) = body.find(&needle) {
        req.body = B(format!("{}X-Amz-Signature={}{}", &body[..p], enc_new, &body[p + needle.len()..]).into_bytes());
        return true;
    }
    false
}

/// Apply one mutation to the signed case. None = mutation not applicable to this request.
pub fn apply(m: &Mutation, plan: &Plan, built: &Built) -> Option<Case> {
    use Mutation::*;
    let mut case = built.case.clone();
    let sig = built.signed.signature.clone();
    match m {
        None => {}
        Method(x) => {
            let nm = METHODS[pick_idx(*x, METHODS.len())];
            if nm == case.req.method {
                return Option::None;
            }
            case.req.method = nm.to_string();
        }
        UriChar(pos, c) => {
            let u = case.req.uri.clone().into_bytes();
            if u.len() < 2 {
                return Option::None;
            }
            let i = 1 + pick_idx(*pos, u.len() - 1);
            let nc = UNRES[pick_idx(*c, UNRES.len())];
            if u[i] == nc {
                return Option::None;
            }
            let mut u = u;
            u[i] = nc;
            case.req.uri = String::from_utf8(u).ok()?;
        }
        UriInsert(pos, w) => {
            let u = &case.req.uri;
            let i = 1 + pick_idx(*pos, u.len());
            let i = i.min(u.len());
            let ins = INSERTS[pick_idx(*w, INSERTS.len())];
            case.req.uri = format!("{}{}{}", &u[..i], ins, &u[i..]);
        }
        UriDelete(pos) => {
            let u = &case.req.uri;
            if u.len() < 2 {
                return Option::None;
            }
            let i = 1 + pick_idx(*pos, u.len() - 1);
            case.req.uri = format!("{}{}", &u[..i], &u[i + 1..]);
        }
        ToggleTrailingSlash => {
            let (p, q) = match case.req.uri.find('?') {
                Some(i) => (case.req.uri[..i].to_string(), case.req.uri[i..].to_string()),
                Option::None => (case.req.uri.clone(), String::new()),
            };
            let np = if p.ends_with('/') && p.len() > 1 { p[..p.len() - 1].to_string() } else { format!("{}/", p) };
            case.req.uri = format!("{}{}", np, q);
        }
        PathSlashEscape(x) => {
            let path = case.req.path().to_string();
            let pq = case.req.path_and_query().to_string();
            let prefix = case.req.uri[..case.req.uri.len() - pq.len()].to_string();
            let rest = pq[path.len()..].to_string();
            // candidates: separators other than the leading one, and escaped slashes
            let mut cand: Vec<(usize, usize, &str)> = path.char_indices().skip(1).filter(|(_, c)| *c == '/').map(|(i, _)| (i, 1, "%2F")).collect();
            let lower = path.to_ascii_lowercase();
            let mut from = 0;
            while let Some(i) = lower[from..].find("%2f") {
                cand.push((from + i, 3, "/"));
                from += i + 3;
            }
            if cand.is_empty() {
                return Option::None;
            }
            let (i, len, rep) = cand[pick_idx(*x, cand.len())];
            let rep = if rep == "%2F" && x % 2 == 1 { "%2f" } else { rep };
            case.req.uri = format!("{}{}{}{}{}", prefix, &path[..i], rep, &path[i + len..], rest);
        }
        MethodTunnel(k) => {
            let carrier = ["POST", "GET", "post", "PUT"][(*k % 4) as usize];
            if case.req.method == carrier {
                return Option::None;
            }
            let name = ["X-HTTP-Method-Override", "X-Method-Override", "X-HTTP-Method", "x-http-method-override"][(*k / 4 % 4) as usize];
            case.req.headers.push((name.to_string(), B::from(case.req.method.as_str())));
            case.req.method = carrier.to_string();
        }
        PathSpaceToPlus => {
            let (p, q) = match case.req.uri.find('?') {
                Some(i) => (case.req.uri[..i].to_string(), case.req.uri[i..].to_string()),
                Option::None => (case.req.uri.clone(), String::new()),
            };
            if !case.req.path().contains("%20") {
                return Option::None;
            }
            case.req.uri = format!("{}{}", p.replacen("%20", "+", 1), q);
        }
        AppendParam(x) => {
            const EXTRA: &[&str] = &["zz=1", "a=", "=", "a", "X-Amz-Expires=1", "a-=&a=", "x-amz-signature=1", "X-AMZ-SIGNATURE=ab", "X-Amz-SignatureX=1", "X-Amz-Signatur=1", "%58-Amz-Signature=1"];
            let extra = EXTRA[pick_idx(*x, EXTRA.len())];
            case.req.uri = if case.req.uri.contains('?') { format!("{}&{}", case.req.uri, extra) } else { format!("{}?{}", case.req.uri, extra) };
        }
        DuplicateParam(x) | RemoveParam(x) => {
            let (p, q) = match case.req.uri.find('?') {
                Some(i) => (case.req.uri[..i].to_string(), case.req.uri[i + 1..].to_string()),
                Option::None => return Option::None,
            };
            let mut parts: Vec<String> = q.split('&').map(|s| s.to_string()).collect();
            if parts.is_empty() {
                return Option::None;
            }
            let i = pick_idx(*x, parts.len());
            if matches!(m, DuplicateParam(_)) {
                let d = parts[i].clone();
                parts.push(d);
            } else {
                parts.remove(i);
            }
            case.req.uri = if parts.is_empty() { p } else { format!("{}?{}", p, parts.join("&")) };
        }
        HeaderByte(h, pos, b) => {
            let i = pick_idx(*h, case.req.headers.len());
            let v = &mut case.req.headers[i].1 .0;
            if v.is_empty() {
                v.push(*b);
            } else {
                let j = pick_idx(*pos, v.len());
                if v[j] == *b {
                    return Option::None;
                }
                v[j] = *b;
            }
        }
        HeaderCase(h, pos) => {
            let i = pick_idx(*h, case.req.headers.len());
            let v = &mut case.req.headers[i].1 .0;
            let letters: Vec<usize> = v.iter().enumerate().filter(|(_, c)| c.is_ascii_alphabetic()).map(|(k, _)| k).collect();
            if letters.is_empty() {
                return Option::None;
            }
            let j = letters[pick_idx(*pos, letters.len())];
            v[j] ^= 0x20;
        }
        HeaderAddValue(h) => {
            let i = pick_idx(*h, case.req.headers.len());
            let n = case.req.headers[i].0.clone();
            case.req.headers.push((n, B::from("added")));
        }
        HeaderRemove(h) => {
            let i = pick_idx(*h, case.req.headers.len());
            case.req.headers.remove(i);
        }
        HostPort(k) => {
            let i = find_header(&case.req, "host")?;
            let v = latin1(&case.req.headers[i].1 .0);
            let t = v.trim_end_matches(' ').to_string();
            const PORTS: [&str; 5] = [":443", ":80", ":8443", ":", ":0443"];
            let nv = match PORTS.iter().find(|p| t.ends_with(*p)) {
                Some(p) if k % 2 == 0 => t[..t.len() - p.len()].to_string(),
                _ => format!("{}{}", t, PORTS[*k as usize % PORTS.len()]),
            };
            if nv == v {
                return Option::None;
            }
            case.req.headers[i].1 = B::from(nv);
        }
        HeaderSuffix(h, k) => {
            let i = pick_idx(*h, case.req.headers.len());
            const SUF: [&str; 6] = [";", " x", ".", "/", ",", "\t"];
            let suf = SUF[*k as usize % SUF.len()];
            let v = &mut case.req.headers[i].1 .0;
            if *k >= 128 && v.ends_with(suf.as_bytes()) {
                let n = v.len() - suf.len();
                v.truncate(n);
            } else {
                v.extend_from_slice(suf.as_bytes());
            }
        }
        HeaderSwapValues(h) => {
            let i = pick_idx(*h, case.req.headers.len());
            let n = case.req.headers[i].0.to_ascii_lowercase();
            let idx: Vec<usize> = case.req.headers.iter().enumerate().filter(|(_, (m, _))| m.eq_ignore_ascii_case(&n)).map(|(k, _)| k).collect();
            if idx.len() < 2 || case.req.headers[idx[0]].1 == case.req.headers[idx[1]].1 {
                return Option::None;
            }
            case.req.headers.swap(idx[0], idx[1]);
        }
        BodyFlip(pos) => {
            if case.req.body.0.is_empty() {
                return Option::None;
            }
            let j = pick_idx(*pos, case.req.body.0.len());
            case.req.body.0[j] ^= 1;
        }
        BodyAppend(b) => case.req.body.0.push(*b),
        BodyPrefix(k) => {
            const PRE: &[&[u8]] = &[b"\xEF\xBB\xBF", b"\xEF\xBB\xBF\xEF\xBB\xBF", b"\xFF\xFE", b"\xFE\xFF", b" ", b"\n", b"\r\n", b"\t", b"\0", b"%EF%BB%BF", b"?", b"\xC2\xA0", b"\xE2\x80\x8B"];
            let mut nb = PRE[*k as usize % PRE.len()].to_vec();
            nb.extend_from_slice(&case.req.body.0);
            case.req.body = B(nb);
        }
        BodyTruncate(pos) => {
            if case.req.body.0.is_empty() {
                return Option::None;
            }
            let j = pick_idx(*pos, case.req.body.0.len());
            case.req.body.0.truncate(j);
        }
        Timestamp(d) => {
            if *d == 0 {
                return Option::None;
            }
            let mut spec = plan.spec.clone();
            let ni = plan.instant.add_nanos(*d as i128 * 1_000_000_000);
            spec.ts_text = crate::model::time::render(ni, plan.style);
            // the credential keeps the date of the originally signed instant
            case.req = attach(&built.base, &plan.cfg, &spec, &built.signed.credential, &sig);
        }
        TimestampLeapSecond(one) => {
            // only meaningful when the signed instant is hh:mm:59 -- the neighbouring spelling hh:mm:60 must not validate
            let t = &plan.spec.ts_text;
            let (tpos, sec_at) = match t.find('T') {
                Some(p) => (p, if plan.style.extended { p + 7 } else { p + 5 }),
                Option::None => return Option::None,
            };
            let _ = tpos;
            if t.len() < sec_at + 2 || &t[sec_at..sec_at + 2] != "59" {
                return Option::None;
            }
            let mut spec = plan.spec.clone();
            spec.ts_text = format!("{}{}{}", &t[..sec_at], if *one { "61" } else { "60" }, &t[sec_at + 2..]);
            case.req = attach(&built.base, &plan.cfg, &spec, &built.signed.credential, &sig);
        }
        Credential(k, v) => {
            let mut parts: Vec<String> = built.signed.credential.split('/').map(|s| s.to_string()).collect();
            if parts.len() != 5 {
                return Option::None;
            }
            let k = *k as usize % 5;
            let old = parts[k].clone();
            let alts: Vec<String> = match k {
                0 => vec![format!("{}X", old), "AKIAOTHERKEY00000".into(), old.to_ascii_lowercase(), old.chars().skip(1).collect()],
                1 => {
                    let d = plan.instant;
                    vec![d.add_nanos(86_400_000_000_000).date8(), d.add_nanos(-86_400_000_000_000).date8(), "20150830".into(), old.chars().take(7).collect()]
                }
                2 => REGIONS.iter().map(|s| s.to_string()).collect(),
                3 => SERVICES.iter().map(|s| s.to_string()).collect(),
                _ => vec!["aws4_reques".into(), "aws4_request ".trim().to_ascii_uppercase(), "aws5_request".into(), "".into()],
            };
            let nv = alts[pick_idx(*v, alts.len())].clone();
            if nv == old {
                return Option::None;
            }
            parts[k] = nv;
            case.req = attach(&built.base, &plan.cfg, &plan.spec, &parts.join("/"), &sig);
        }
        ProviderSecret(x) => {
            let e = &mut case.prov.keys[0];
            let old = e.secret.clone();
            e.secret = match x % 4 {
                0 => format!("{}x", old.chars().take(39).collect::<String>()),
                1 => old.chars().skip(1).collect(),
                2 => old.to_ascii_uppercase(),
                _ => "another-secret".into(),
            };
            if e.secret == old || e.secret.len() > 40 {
                return Option::None;
            }
        }
        ProviderDerive(k) => {
            let q_date = plan.instant.date8();
            let other_date = plan.instant.add_nanos(86_400_000_000_000).date8();
            let (r, s) = (plan.cfg.region.clone(), plan.cfg.service.clone());
            case.prov.keys[0].derive_as = Some(match k % 3 {
                0 => (other_date, r, s),
                1 => (q_date, format!("{}x", r), s),
                _ => (q_date, r, format!("{}x", s)),
            });
        }
        ServerRegion(x) => {
            let n = REGIONS[pick_idx(*x, REGIONS.len())];
            if n == case.cfg.region {
                return Option::None;
            }
            case.cfg.region = n.to_string();
        }
        ServerService(x) => {
            let n = SERVICES[pick_idx(*x, SERVICES.len())];
            if n == case.cfg.service {
                return Option::None;
            }
            case.cfg.service = n.to_string();
        }
        FlipOption(which) => {
            if *which {
                case.cfg.s3 = !case.cfg.s3;
            } else {
                case.cfg.fold = !case.cfg.fold;
            }
        }
        SigChar(p, d) => {
            let mut s = sig.clone().into_bytes();
            let p = *p as usize % s.len();
            let nd = HEX[*d as usize % 16];
            if s[p] == nd {
                return Option::None;
            }
            s[p] = nd;
            if !replace_signature(&mut case.req, &sig, std::str::from_utf8(&s).ok()?) {
                return Option::None;
            }
        }
        SigTruncate(n) => {
            let n = *n as usize % 64;
            if !replace_signature(&mut case.req, &sig, &sig[..n]) {
                return Option::None;
            }
        }
        SigExtend(d) => {
            let ns = format!("{}{}", sig, HEX[*d as usize % 16] as char);
            if !replace_signature(&mut case.req, &sig, &ns) {
                return Option::None;
            }
        }
        SigEmpty => {
            if !replace_signature(&mut case.req, &sig, "") {
                return Option::None;
            }
        }
        SigZero => {
            if !replace_signature(&mut case.req, &sig, &"0".repeat(64)) {
                return Option::None;
            }
        }
        SigUpper => {
            let up = sig.to_ascii_uppercase();
            if up == sig || !replace_signature(&mut case.req, &sig, &up) {
                return Option::None;
            }
        }
        SigRandom(r) => {
            let ns = crate::model::crypto::hex_lower(r);
            if !replace_signature(&mut case.req, &sig, &ns) {
                return Option::None;
            }
        }
        SigOfOther(other) => {
            let ob = other.build().ok()?;
            if ob.signed.signature == sig || !replace_signature(&mut case.req, &sig, &ob.signed.signature) {
                return Option::None;
            }
        }
    }
    Some(case)
}

pub fn label(m: &Mutation) -> &'static str {
    use Mutation::*;
    match m {
        Method(_) => "method",
        UriChar(..) | UriInsert(..) | UriDelete(_) | ToggleTrailingSlash | PathSpaceToPlus | PathSlashEscape(_) => "uri",
        MethodTunnel(_) => "method",
        AppendParam(_) | DuplicateParam(_) | RemoveParam(_) => "param",
        HeaderByte(..) | HeaderCase(..) | HeaderAddValue(_) | HeaderRemove(_) | HeaderSwapValues(_) | HostPort(_) | HeaderSuffix(..) => "header",
        BodyFlip(_) | BodyAppend(_) | BodyTruncate(_) | BodyPrefix(_) => "body",
        Timestamp(_) | TimestampLeapSecond(_) => "timestamp",
        Credential(..) => "credential",
        ProviderSecret(_) | ProviderDerive(_) => "key",
        ServerRegion(_) | ServerService(_) | FlipOption(_) => "server-config",
        SigChar(..) | SigTruncate(_) | SigExtend(_) | SigEmpty | SigZero | SigUpper | SigRandom(_) | SigOfOther(_) => "signature",
        None => "none",
    }
}

pub fn check_mutated(mc: &Mutated, cc: &mut CaseCtx) -> CheckResult {
    let Ok(built) = mc.plan.build() else {
        cc.class("unsignable");
        return Ok(());
    };
    let Some(case) = apply(&mc.mutation, &mc.plan, &built) else {
        cc.class("mutation-not-applicable");
        return Ok(());
    };
    soundness(&case, label(&mc.mutation), cc)
}

#[derive(Clone, Debug, Serialize, Deserialize)]
pub struct InFlight {
    pub m: Mutated,
    /// poll order (cycled) over [original, edited twin, original again]
    pub order: Vec<u8>,
    /// every key lookup suspends this many times
    pub pending: u8,
}

pub fn check_in_flight(f: &InFlight, cc: &mut CaseCtx) -> CheckResult {
    let mut plan = f.m.plan.clone();
    plan.cfg.reqs = Reqs::default();
    let Ok(built) = plan.build() else {
        cc.class("unsignable");
        return Ok(());
    };
    let Some(twin) = apply(&f.m.mutation, &plan, &built) else {
        cc.class("mutation-not-applicable");
        return Ok(());
    };
    let mut cases = vec![built.case.clone(), twin, built.case.clone()];
    for c in cases.iter_mut() {
        c.prov.call_pending = f.pending;
    }
    let outs = match exec::run_interleaved(&cases, &f.order) {
        Ok(o) => o,
        Err(m) if m.starts_with("UNREPRESENTABLE") => return Ok(()),
        Err(m) => return Err(Failure::new(&format!("panic:{}", panic_site(&m)), format!("validations in flight together panicked: {}", m))),
    };
    cc.class(label(&f.m.mutation));
    let mut decided_by_signature = false;
    for (i, (c, o)) in cases.iter().zip(outs.iter()).enumerate() {
        let a = analyze(c);
        check_total(o)?;
        if let Verdict::Reject { rank, .. } = a.verdict() {
            decided_by_signature |= *rank >= R_SCOPE;
        }
        check_ok_implies_signature(&a, o).map_err(|e| {
            // the recorded finding, established causally as in `soundness`
            if let Some(c2) = escape_plus_in_path(c) {
                let (a2, o2) = (analyze(&c2), exec::run(&c2));
                if check_total(&o2).is_ok() && check_ok_implies_signature(&a2, &o2).is_ok() {
                    return Failure::new(&format!("{}+literal-plus-in-path", e.sig), e.msg);
                }
            }
            Failure::new(&format!("{}:in-flight-together", e.sig), format!("{} [validation {} of 3 in flight on one thread, poll order {:?}]", e.msg, i, f.order))
        })?;
    }
    if decided_by_signature {
        cc.nontrivial(digest_of(&[&cases[1].req.digest().to_le_bytes(), format!("{:?}{}", f.order, f.pending).as_bytes()]));
    }
    Ok(())
}

/// The unedited request first (same thread, immediately before), then its edited twin.
pub fn check_primed_mutated(mc: &Mutated, cc: &mut CaseCtx) -> CheckResult {
    let Ok(built) = mc.plan.build() else {
        cc.class("unsignable");
        return Ok(());
    };
    let Some(case) = apply(&mc.mutation, &mc.plan, &built) else {
        cc.class("mutation-not-applicable");
        return Ok(());
    };
    let mut scratch = CaseCtx::default();
    soundness(&built.case, "primer", &mut scratch)?;
    soundness(&case, label(&mc.mutation), cc)
}

/// The C01 oracle on an arbitrary case.
pub fn soundness(case: &Case, lbl: &'static str, cc: &mut CaseCtx) -> CheckResult {
    let a = analyze(case);
    let o = exec::run(case);
    if let exec::Res::Unrepresentable(_) = o.res {
        cc.class("unrepresentable");
        return Ok(());
    }
    check_total(&o)?;
    cc.class(lbl);
    match a.verdict() {
        Verdict::Reject { rank, .. } => {
            if *rank >= R_SCOPE {
                cc.class(if *rank == R_SIGNATURE { "decided-by-signature" } else { "decided-by-scope-or-provider" });
                let d = digest_of(&[
                    a.sts.as_deref().unwrap_or(b""),
                    format!("{:?}", a.key_query).as_bytes(),
                    a.presented_sig.as_deref().unwrap_or(b""),
                    format!("{:?}", case.prov.keys.first().map(|k| (&k.secret, &k.derive_as))).as_bytes(),
                ]);
                cc.nontrivial(d);
                cc.sample(case_sample(case, json!({"edit": lbl, "model": a.verdict().short(), "crate": o.res.short()})));
            } else {
                cc.class("decided-earlier");
            }
        }
        Verdict::Accept => cc.class("still-valid"),
        Verdict::Unspecified { .. } => {
            cc.unspecified = true;
        }
    }
    check_ok_implies_signature(&a, &o).map_err(|f| {
        // Known-finding shape, established causally: the failure needs a literal '+' in the path and
        // disappears when that '+' is spelled %2B (the crate canonicalises a literal '+' in a path as a space).
        if let Some(c2) = escape_plus_in_path(case) {
            let (a2, o2) = (analyze(&c2), exec::run(&c2));
            if check_total(&o2).is_ok() && check_ok_implies_signature(&a2, &o2).is_ok() {
                return Failure::new(&format!("{}+literal-plus-in-path", f.sig), f.msg);
            }
        }
        f
    })
}

/// The same case with every literal '+' of the path spelled %2B; None when the path has no '+'.
pub fn escape_plus_in_path(case: &Case) -> Option<Case> {
    let path = case.req.path();
    if !path.contains('+') {
        return None;
    }
    // the path is the prefix of the origin-form part, which is a suffix of the request target
    let pq = case.req.path_and_query();
    let prefix_len = case.req.uri.len() - pq.len();
    let prefix = case.req.uri[..prefix_len].to_string();
    let rest = pq[path.len()..].to_string();
    let mut c2 = case.clone();
    c2.req.uri = format!("{}{}{}", prefix, path.replace('+', "%2B"), rest);
    Some(c2)
}

#[derive(Clone, Debug, Serialize, Deserialize)]
pub struct Blind {
    pub plan: Plan,
    pub sig: String,
}

/// Requests that were never signed: arbitrary signature strings.
pub fn check_blind(b: &Blind, cc: &mut CaseCtx) -> CheckResult {
    let base = b.plan.base();
    let Ok(scope) = crate::model::sign::default_scope(&b.plan.cfg, &b.plan.spec) else { return Ok(()) };
    let cred = format!("{}/{}/{}/{}/{}", b.plan.spec.access_key, scope.0, scope.1, scope.2, scope.3);
    if b.plan.spec.carrier == Carrier::Header && b.sig.contains(',') {
        return Ok(());
    }
    let req = attach(&base, &b.plan.cfg, &b.plan.spec, &cred, &b.sig);
    let case = Case { req, cfg: b.plan.cfg.clone(), prov: b.plan.provider() };
    soundness(&case, "blind", cc)
}
