//! C02 -- completeness: every request signed per SigV4 by an independent reference signer is
//! accepted, whatever the (admissible) wire spelling, carrier, token, options, clock offset in window.

use super::common::*;
use crate::engine::*;
use crate::exec;
use crate::gen::*;
use crate::model::canon::{canonical_path, canonical_query, parse_query};
use crate::model::verify::*;
use crate::types::B;
use proptest::prelude::*;
use serde::{Deserialize, Serialize};
use serde_json::json;

pub const RULE: &str = "generated: logical request x wire spelling x carrier x token x options x requirement set x clock offset in [-15min,+15min], signed by the reference signer; oracle: crate must return Ok and the provider must be asked once with the model's arguments. Non-trivial: the model says MustAccept and the case shows at least one of {query carrier, session token, folded form body, repeated parameter name, prefix-related names, escaped unreserved byte, lower-case hex escape, '+' for space, mixed-case header name, redundant header spaces, non-Z timestamp, clock offset != 0, declared requirements}; distinct by digest of the wire request and configuration.";

pub fn subs() -> Vec<Box<dyn AnySub>> {
    vec![
        Box::new(Sub { name: "valid", quick: 40_000, thorough: 800_000, strat: || plan(PlanOpts::default()), check: check_plan }),
        Box::new(Sub {
            name: "respell",
            quick: 15_000,
            thorough: 300_000,
            strat: || (plan(PlanOpts::default()), spelling()).prop_map(|(p, s)| Respell { plan: p, other: s }).boxed(),
            check: check_respell,
        }),
        // keeps exercising the open known finding (literal '+' in a path) so that the KNOWN-FINDING line reflects the current tree
        Box::new(Sub {
            name: "plus-in-path-probe",
            quick: 300,
            thorough: 3_000,
            strat: || {
                plan(PlanOpts { plain_spelling: true, allow_s3: false, ..PlanOpts::default() })
                    .prop_map(|mut p| {
                        p.logical.segments.push(B::from("a+b"));
                        p.spelling.plus_literal = true;
                        p
                    })
                    .boxed()
            },
            check: check_plus_probe,
        }),
        // (last: the log level is process-wide) completeness must not depend on whether anybody listens to the
        // library's trace records; bodies beyond 1 KiB / 64 KiB included
        Box::new(Sub {
            name: "valid-with-trace-logging",
            quick: 12_000,
            thorough: 200_000,
            strat: || plan(PlanOpts { logical: LogicalOpts { body_class: 1, ..LogicalOpts::default() }, ..PlanOpts::default() }),
            check: |p, cc| {
                exec::enable_log_capture();
                exec::with_logs(|| check_plan(p, cc)).0.map_err(|f| if f.sig == "HARNESS" { f } else { Failure::new(&format!("{}:trace-logging", f.sig), f.msg) })
            },
        }),
    ]
}

pub fn check_plus_probe(p: &Plan, cc: &mut CaseCtx) -> CheckResult {
    match check_plan_inner(p, cc) {
        Ok(_) => Ok(()),
        Err(f) if f.sig == "HARNESS" => Err(f),
        Err(f) => {
            // causal: the same request with the '+' escaped is accepted
            let mut q = p.clone();
            q.spelling.plus_literal = false;
            let mut c2 = CaseCtx::default();
            if matches!(check_plan_inner(&q, &mut c2), Ok(true)) {
                Err(Failure::new(&format!("{}+literal-plus-in-path", f.sig), f.msg))
            } else {
                Err(f)
            }
        }
    }
}

pub fn check_plan(p: &Plan, cc: &mut CaseCtx) -> CheckResult {
    check_plan_inner(p, cc).map(|_| ())
}

/// returns whether the crate accepted
pub fn check_plan_inner(p: &Plan, cc: &mut CaseCtx) -> Result<bool, Failure> {
    let built = match p.build() {
        Ok(b) => b,
        Err(_) => {
            cc.class("unsignable");
            return Ok(false);
        }
    };
    let case = &built.case;
    let a = analyze(case);
    // harness self-consistency: the wire spelling denotes the logical request
    if !p.cfg.s3 {
        let want = logical_canonical_path(&p.logical);
        match canonical_path(built.base.path().as_bytes(), false) {
            Ok((got, _)) if got == want => {}
            other => return Err(harness_bug(format!("speller/model path mismatch: logical {} wire {} -> {:?}", want, built.base.uri, other))),
        }
    }
    match parse_query(built.base.query().unwrap_or("").as_bytes()) {
        Ok(pairs) => {
            let l: Vec<(Vec<u8>, Vec<u8>)> = p.logical.query.iter().map(|(n, v)| (n.0.clone(), v.0.clone())).collect();
            if canonical_query(&pairs) != canonical_query(&l) {
                return Err(harness_bug(format!("speller/model query mismatch on {}", built.base.uri)));
            }
        }
        Err(e) => return Err(harness_bug(format!("speller produced an unparsable query {:?}: {}", e, built.base.uri))),
    }
    let o = exec::run(case);
    if let exec::Res::Unrepresentable(_) = o.res {
        cc.class("unrepresentable");
        return Ok(false);
    }
    match a.verdict() {
        Verdict::Accept => {}
        Verdict::Unspecified { .. } => {
            cc.unspecified = true;
            cc.class("unspecified");
            check_total(&o)?;
            return Ok(o.res.is_ok());
        }
        Verdict::Reject { .. } => {
            return Err(harness_bug(format!("model refuses what the reference signer produced: {} on {:?}", a.verdict().short(), case.req)))
        }
    }
    classify(p, &built, cc);
    check_against_model(&a, &o)?;
    Ok(true)
}

fn classify(p: &Plan, built: &Built, cc: &mut CaseCtx) {
    let uri = &built.base.uri;
    let mut interesting = false;
    let mut mark = |cond: bool, name: &'static str, cc: &mut CaseCtx| {
        if cond {
            cc.class(name);
            interesting = true;
        }
    };
    mark(p.spec.carrier == Carrier::Query, "query-carrier", cc);
    mark(p.spec.token.is_some(), "token", cc);
    mark(p.cfg.fold && p.form.is_some(), "folded-form", cc);
    mark(p.cfg.s3, "s3", cc);
    let names: Vec<&Vec<u8>> = p.logical.query.iter().map(|(n, _)| &n.0).collect();
    mark(names.iter().enumerate().any(|(i, n)| names[..i].contains(n)), "repeated-param", cc);
    mark(
        names.iter().any(|n| names.iter().any(|m| m.len() > n.len() && m.starts_with(n) && m[n.len()] < b'=')),
        "prefix-names-below-eq",
        cc,
    );
    mark(uri.contains('+'), "plus-for-space", cc);
    mark(uri.bytes().zip(uri.bytes().skip(1)).any(|(a, b)| a == b'%' && b.is_ascii_lowercase()), "lowercase-hex", cc);
    mark(uri.contains("%41") || uri.contains("%61") || uri.contains("%7E") || uri.contains("%7e") || uri.contains("%2D") || uri.contains("%2d"), "escaped-unreserved", cc);
    mark(built.case.req.headers.iter().any(|(n, _)| n.bytes().any(|c| c.is_ascii_uppercase())), "mixed-case-header", cc);
    mark(built.case.req.headers.iter().any(|(_, v)| v.0.starts_with(b" ") || v.0.ends_with(b" ") || v.0.windows(2).any(|w| w == b"  ")), "redundant-spaces", cc);
    mark(p.style.offset_min.is_some() || p.style.extended || p.style.frac_digits > 0, "non-basic-timestamp", cc);
    mark(p.cfg.now != p.instant, "clock-offset", cc);
    mark(!p.cfg.reqs.always.is_empty() || !p.cfg.reqs.if_in_request.is_empty() || !p.cfg.reqs.prefixes.is_empty(), "requirements", cc);
    mark(p.spec.use_date_header, "date-header", cc);
    mark(p.logical.body.0.len() > 65536, "body>64K", cc);
    if interesting {
        let d = digest_of(&[&built.case.req.digest().to_le_bytes(), format!("{:?}", built.case.cfg).as_bytes()]);
        cc.nontrivial(d);
        cc.sample(case_sample(&built.case, json!({"carrier": format!("{:?}", p.spec.carrier), "timestamp": p.spec.ts_text})));
    }
}

#[derive(Clone, Debug, Serialize, Deserialize)]
pub struct Respell {
    pub plan: Plan,
    pub other: Spelling,
}

/// Metamorphic side condition: two spellings of one logical request get the same verdict.
pub fn check_respell(r: &Respell, cc: &mut CaseCtx) -> CheckResult {
    let mut c1 = CaseCtx::default();
    let first = check_plan_inner(&r.plan, &mut c1)?;
    let mut p2 = r.plan.clone();
    p2.spelling = r.other.clone();
    let second = check_plan_inner(&p2, cc)?;
    if c1.unspecified || cc.unspecified {
        cc.unspecified = true;
        return Ok(());
    }
    if first != second {
        return Err(Failure::new("respell-verdict-differs", format!("spelling A accepted={} spelling B accepted={}", first, second)));
    }
    Ok(())
}
