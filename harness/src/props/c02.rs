//! C02 -- completeness: every request signed per SigV4 by an independent reference signer is
//! accepted, whatever the (admissible) wire spelling, carrier, token, options, clock offset in window.

use super::common::*;
use crate::engine::*;
use crate::exec;
use crate::gen::*;
use crate::model::canon::{canonical_path, canonical_query, parse_query};
use crate::model::verify::*;
use crate::types::B;
use proptest::prelude::*;
use serde::{Deserialize, Serialize};
use serde_json::json;

pub const RULE: &str = "generated: logical request x wire spelling x carrier x token x options x requirement set x clock offset in [-15min,+15min], signed by the reference signer; oracle: crate must return Ok and the provider must be asked once with the model's arguments. Also: requests in which one countable ingredient (16 of them: header count, signed-header count, value length, token length, path depth, parameter count, region/service length, body size, ...) is 2^k-1, 2^k or 2^k+1 for k = 4..15. Non-trivial: the model says MustAccept and the case shows at least one of {query carrier, session token, folded form body, repeated parameter name, prefix-related names, escaped unreserved byte, lower-case hex escape, '+' for space, mixed-case header name, redundant header spaces, non-Z timestamp, clock offset != 0, declared requirements}; distinct by digest of the wire request and configuration.";

pub fn subs() -> Vec<Box<dyn AnySub>> {
    vec![
        Box::new(Sub { name: "valid", quick: 40_000, thorough: 800_000, strat: || plan(PlanOpts::default()), check: check_plan }),
        Box::new(Sub {
            name: "respell",
            quick: 15_000,
            thorough: 300_000,
            strat: || (plan(PlanOpts::default()), spelling()).prop_map(|(p, s)| Respell { plan: p, other: s }).boxed(),
            check: check_respell,
        }),
        // keeps exercising the open known finding (literal '+' in a path) so that the KNOWN-FINDING line reflects the current tree
        Box::new(Sub {
            name: "plus-in-path-probe",
            quick: 300,
            thorough: 3_000,
            strat: || {
                plan(PlanOpts { plain_spelling: true, allow_s3: false, ..PlanOpts::default() })
                    .prop_map(|mut p| {
                        p.logical.segments.push(B::from("a+b"));
                        p.spelling.plus_literal = true;
                        p
                    })
                    .boxed()
            },
            check: check_plus_probe,
        }),
        // one countable ingredient of an otherwise small valid request scaled to a power of two or its neighbours
        Box::new(EnumSub { name: "scaled", exhaustive: true, list: scaled_list, check: check_scaled }),
        // (last: the log level is process-wide) completeness must not depend on whether anybody listens to the
        // library's trace records; bodies beyond 1 KiB / 64 KiB included
        Box::new(Sub {
            name: "valid-with-trace-logging",
            quick: 12_000,
            thorough: 200_000,
            strat: || plan(PlanOpts { logical: LogicalOpts { body_class: 1, ..LogicalOpts::default() }, ..PlanOpts::default() }),
            check: |p, cc| {
                exec::enable_log_capture();
                exec::with_logs(|| check_plan(p, cc)).0.map_err(|f| if f.sig == "HARNESS" { f } else { Failure::new(&format!("{}:trace-logging", f.sig), f.msg) })
            },
        }),
    ]
}

#[derive(Clone, Debug, Serialize, Deserialize)]
pub struct Scaled {
    pub query_carrier: bool,
    /// which ingredient is scaled (see `scaled_plan`)
    pub dim: u8,
    pub size: usize,
}

pub const SCALE_DIMS: &[&str] = &[
    "number of (unsigned) headers", "number of signed headers", "length of a signed header value", "values of one signed header", "length of the session token",
    "length of the access key", "number of path segments", "length of a path segment", "number of query parameters", "length of a query value",
    "length of a query name", "length of region and service", "body bytes", "form fields folded", "length of a header name", "trailing spaces of a signed value",
];

pub fn scaled_list(t: Tier) -> Vec<Scaled> {
    let mut out = Vec::new();
    for dim in 0..SCALE_DIMS.len() as u8 {
        for k in 4u32..=15 {
            if t == Tier::Quick && ![5, 8, 10, 12, 13].contains(&k) {
                continue;
            }
            for d in [-1i64, 0, 1] {
                for q in [false, true] {
                    out.push(Scaled { query_carrier: q, dim, size: ((1i64 << k) + d) as usize });
                }
            }
        }
    }
    out
}

/// None where the http crate (64 KiB request targets, 32 K headers) cannot carry the size.
pub fn scaled_plan(sc: &Scaled) -> Option<Plan> {
    let mut p = simple_plan(if sc.query_carrier { Carrier::Query } else { Carrier::Header });
    let n = sc.size;
    let in_target = |bytes: usize| bytes < 60_000;
    match sc.dim {
        0 => {
            if n > 20_000 {
                return None;
            }
            for i in 0..n {
                p.logical.headers.push((format!("x-h{}", i), vec![B::from("v")]));
            }
        }
        1 => {
            if n > 20_000 || sc.query_carrier && !in_target(n * 8) {
                return None;
            }
            for i in 0..n {
                p.logical.headers.push((format!("x-s{:05}", i), vec![B::from("v")]));
                p.spec.signed_headers.push(format!("x-s{:05}", i));
            }
            p.spec.signed_headers.sort();
        }
        2 => {
            p.logical.headers.push(("x-long".into(), vec![B("v".repeat(n).into_bytes())]));
            p.spec.signed_headers.push("x-long".into());
            p.spec.signed_headers.sort();
        }
        3 => {
            if n > 20_000 {
                return None;
            }
            p.logical.headers.push(("x-multi".into(), (0..n).map(|i| B::from(format!("v{}", i % 10))).collect()));
            p.spec.signed_headers.push("x-multi".into());
            p.spec.signed_headers.sort();
        }
        4 => {
            if sc.query_carrier && !in_target(n) {
                return None;
            }
            let t = "t".repeat(n);
            p.spec.token = Some(t.clone());
            p.entry.token = Some(t);
        }
        5 => {
            if sc.query_carrier && !in_target(n) {
                return None;
            }
            p.spec.access_key = "A".repeat(n);
            p.entry.access_key = p.spec.access_key.clone();
        }
        6 => {
            if !in_target(n * 2) {
                return None;
            }
            p.logical.segments = (0..n).map(|_| B::from("s")).collect();
        }
        7 => {
            if !in_target(n) {
                return None;
            }
            p.logical.segments = vec![B("s".repeat(n).into_bytes())];
        }
        8 => {
            if !in_target(n * 9) {
                return None;
            }
            p.logical.query = (0..n).map(|i| (B::from(format!("q{:05}", (i * 7919) % n)), B::from("1"))).collect();
        }
        9 => {
            if !in_target(n) {
                return None;
            }
            p.logical.query = vec![(B::from("k"), B("v".repeat(n).into_bytes()))];
        }
        10 => {
            if !in_target(n) {
                return None;
            }
            p.logical.query = vec![(B("k".repeat(n).into_bytes()), B::from("v"))];
        }
        11 => {
            if sc.query_carrier && !in_target(2 * n) {
                return None;
            }
            p.cfg.region = "r".repeat(n);
            p.cfg.service = "s".repeat(n);
        }
        12 => {
            p.logical.method = "PUT".into();
            p.logical.body = B((0..n * 8).map(|i| (i % 251) as u8).collect());
        }
        13 => {
            if !in_target(n * 9) {
                return None;
            }
            p.logical.method = "POST".into();
            p.cfg.fold = true;
            p.form = Some((0..n).map(|i| (B::from(format!("f{:05}", i)), B::from("1"))).collect());
        }
        14 => {
            if n > 30_000 || sc.query_carrier && !in_target(n) {
                return None;
            }
            let name = format!("x-{}", "n".repeat(n));
            p.logical.headers.push((name.clone(), vec![B::from("v")]));
            p.spec.signed_headers.push(name);
            p.spec.signed_headers.sort();
        }
        _ => {
            p.logical.headers.push(("x-pad".into(), vec![B::from("v")]));
            p.spec.signed_headers.push("x-pad".into());
            p.spec.signed_headers.sort();
            // the padding itself is put on by the caller (the logical value stays "v")
        }
    }
    Some(p)
}

pub fn check_scaled(sc: &Scaled, cc: &mut CaseCtx) -> CheckResult {
    let Some(p) = scaled_plan(sc) else {
        cc.class("beyond-what-http-can-carry");
        return Ok(());
    };
    let Ok(mut built) = p.build() else {
        cc.class("unsignable");
        return Ok(());
    };
    if sc.dim == 15 {
        for (n, v) in built.case.req.headers.iter_mut() {
            if n.eq_ignore_ascii_case("x-pad") {
                v.0.extend(std::iter::repeat(b' ').take(sc.size));
            }
        }
    }
    let case = &built.case;
    let (a, o) = (analyze(case), exec::run(case));
    let dim = SCALE_DIMS[sc.dim as usize % SCALE_DIMS.len()];
    if let exec::Res::Unrepresentable(_) = o.res {
        cc.class("beyond-what-http-can-carry");
        return Ok(());
    }
    if !a.verdict().is_specified() {
        cc.unspecified = true;
        return check_total(&o);
    }
    if !a.verdict().is_accept() {
        return Err(harness_bug(format!("scaled request ({} = {}) is refused by the model: {}", dim, sc.size, a.verdict().short())));
    }
    cc.class(dim);
    cc.nontrivial(digest_of(&[&[sc.dim, sc.query_carrier as u8], &sc.size.to_le_bytes()]));
    if sc.size.is_power_of_two() && !sc.query_carrier {
        cc.sample(json!({"scaled": dim, "size": sc.size, "carrier": "header"}));
    }
    check_against_model(&a, &o).map_err(|f| Failure::new(&format!("scaled:{}", f.sig), format!("{} = {} ({} carrier): {}", dim, sc.size, if sc.query_carrier { "query" } else { "header" }, f.msg.chars().take(300).collect::<String>())))
}

pub fn check_plus_probe(p: &Plan, cc: &mut CaseCtx) -> CheckResult {
    match check_plan_inner(p, cc) {
        Ok(_) => Ok(()),
        Err(f) if f.sig == "HARNESS" => Err(f),
        Err(f) => {
            // causal: the same request with the '+' escaped is accepted
            let mut q = p.clone();
            q.spelling.plus_literal = false;
            let mut c2 = CaseCtx::default();
            if matches!(check_plan_inner(&q, &mut c2), Ok(true)) {
                Err(Failure::new(&format!("{}+literal-plus-in-path", f.sig), f.msg))
            } else {
                Err(f)
            }
        }
    }
}

pub fn check_plan(p: &Plan, cc: &mut CaseCtx) -> CheckResult {
    check_plan_inner(p, cc).map(|_| ())
}

/// returns whether the crate accepted
pub fn check_plan_inner(p: &Plan, cc: &mut CaseCtx) -> Result<bool, Failure> {
    let built = match p.build() {
        Ok(b) => b,
        Err(_) => {
            cc.class("unsignable");
            return Ok(false);
        }
    };
    let case = &built.case;
    let a = analyze(case);
    // harness self-consistency: the wire spelling denotes the logical request
    if !p.cfg.s3 {
        let want = logical_canonical_path(&p.logical);
        match canonical_path(built.base.path().as_bytes(), false) {
            Ok((got, _)) if got == want => {}
            other => return Err(harness_bug(format!("speller/model path mismatch: logical {} wire {} -> {:?}", want, built.base.uri, other))),
        }
    }
    match parse_query(built.base.query().unwrap_or("").as_bytes()) {
        Ok(pairs) => {
            let l: Vec<(Vec<u8>, Vec<u8>)> = p.logical.query.iter().map(|(n, v)| (n.0.clone(), v.0.clone())).collect();
            if canonical_query(&pairs) != canonical_query(&l) {
                return Err(harness_bug(format!("speller/model query mismatch on {}", built.base.uri)));
            }
        }
        Err(e) => return Err(harness_bug(format!("speller produced an unparsable query {:?}: {}", e, built.base.uri))),
    }
    let o = exec::run(case);
    if let exec::Res::Unrepresentable(_) = o.res {
        cc.class("unrepresentable");
        return Ok(false);
    }
    match a.verdict() {
        Verdict::Accept => {}
        Verdict::Unspecified { .. } => {
            cc.unspecified = true;
            cc.class("unspecified");
            check_total(&o)?;
            return Ok(o.res.is_ok());
        }
        Verdict::Reject { .. } => {
            return Err(harness_bug(format!("model refuses what the reference signer produced: {} on {:?}", a.verdict().short(), case.req)))
        }
    }
    classify(p, &built, cc);
    check_against_model(&a, &o)?;
    Ok(true)
}

fn classify(p: &Plan, built: &Built, cc: &mut CaseCtx) {
    let uri = &built.base.uri;
    let mut interesting = false;
    let mut mark = |cond: bool, name: &'static str, cc: &mut CaseCtx| {
        if cond {
            cc.class(name);
            interesting = true;
        }
    };
    mark(p.spec.carrier == Carrier::Query, "query-carrier", cc);
    mark(p.spec.token.is_some(), "token", cc);
    mark(p.cfg.fold && p.form.is_some(), "folded-form", cc);
    mark(p.cfg.s3, "s3", cc);
    let names: Vec<&Vec<u8>> = p.logical.query.iter().map(|(n, _)| &n.0).collect();
    mark(names.iter().enumerate().any(|(i, n)| names[..i].contains(n)), "repeated-param", cc);
    mark(
        names.iter().any(|n| names.iter().any(|m| m.len() > n.len() && m.starts_with(n) && m[n.len()] < b'=')),
        "prefix-names-below-eq",
        cc,
    );
    mark(uri.contains('+'), "plus-for-space", cc);
    mark(uri.bytes().zip(uri.bytes().skip(1)).any(|(a, b)| a == b'%' && b.is_ascii_lowercase()), "lowercase-hex", cc);
    mark(uri.contains("%41") || uri.contains("%61") || uri.contains("%7E") || uri.contains("%7e") || uri.contains("%2D") || uri.contains("%2d"), "escaped-unreserved", cc);
    mark(built.case.req.headers.iter().any(|(n, _)| n.bytes().any(|c| c.is_ascii_uppercase())), "mixed-case-header", cc);
    mark(built.case.req.headers.iter().any(|(_, v)| v.0.starts_with(b" ") || v.0.ends_with(b" ") || v.0.windows(2).any(|w| w == b"  ")), "redundant-spaces", cc);
    mark(p.style.offset_min.is_some() || p.style.extended || p.style.frac_digits > 0, "non-basic-timestamp", cc);
    mark(p.cfg.now != p.instant, "clock-offset", cc);
    mark(!p.cfg.reqs.always.is_empty() || !p.cfg.reqs.if_in_request.is_empty() || !p.cfg.reqs.prefixes.is_empty(), "requirements", cc);
    mark(p.spec.use_date_header, "date-header", cc);
    mark(p.logical.body.0.len() > 65536, "body>64K", cc);
    if interesting {
        let d = digest_of(&[&built.case.req.digest().to_le_bytes(), format!("{:?}", built.case.cfg).as_bytes()]);
        cc.nontrivial(d);
        cc.sample(case_sample(&built.case, json!({"carrier": format!("{:?}", p.spec.carrier), "timestamp": p.spec.ts_text})));
    }
}

#[derive(Clone, Debug, Serialize, Deserialize)]
pub struct Respell {
    pub plan: Plan,
    pub other: Spelling,
}

/// Metamorphic side condition: two spellings of one logical request get the same verdict.
pub fn check_respell(r: &Respell, cc: &mut CaseCtx) -> CheckResult {
    let mut c1 = CaseCtx::default();
    let first = check_plan_inner(&r.plan, &mut c1)?;
    let mut p2 = r.plan.clone();
    p2.spelling = r.other.clone();
    let second = check_plan_inner(&p2, cc)?;
    if c1.unspecified || cc.unspecified {
        cc.unspecified = true;
        return Ok(());
    }
    if first != second {
        return Err(Failure::new("respell-verdict-differs", format!("spelling A accepted={} spelling B accepted={}", first, second)));
    }
    Ok(())
}
