//! C03 -- credential scope binds the signature to this server's region, service and date.

use super::common::*;
use crate::engine::*;
use crate::exec;
use crate::gen::*;
use crate::model::sign::{attach, sign_full};
use crate::model::time::Instant;
use crate::model::verify::*;
use crate::types::*;
use proptest::prelude::*;
use serde::{Deserialize, Serialize};
use serde_json::json;

pub const RULE: &str = "generated: credential strings from a grammar (1-8 parts; each part the expected value, a proper prefix, a suffix-extended, case-changed, empty or one-byte-edited variant, another region/service, aws4_request near-misses; dates = request UTC date, +-1 day, the server's date, the date in the request's local offset, malformed) x server region/service pairs (incl. prefixes of one another) x timestamps near midnight with offsets. Each request is signed under the key of the credential's OWN scope and the scripted provider hands out that foreign key, so only the scope check can refuse it. A second route feeds arbitrary credential strings to the authenticator's prevalidation (crate feature `unstable`). A third route presents a request accepted under its own configuration to another one (other region, other service, both, exchanged, server a day later) directly afterwards on the same thread, end to end and through prevalidate. Oracle: parts != 5 => IncompleteSignature/400; any scope component unequal => SignatureDoesNotMatch/403 and zero provider calls; all equal => Ok and exactly one provider call with (access key, token, UTC date of the request instant, server region, server service). Non-trivial: exactly one component deviates (near miss) or the request is valid under a foreign scope or the UTC date differs from the local/server date; distinct by (credential, server config, timestamp).";

#[derive(Clone, Debug, Serialize, Deserialize)]
pub struct ScopeCase {
    pub plan: Plan,
    /// credential parts after the access key (any number)
    pub parts: Vec<String>,
    /// provider derives the key for the credential's own scope (instead of the scope it is asked for)
    pub provider_follows_credential: bool,
}

fn variant(expected: &str, others: &[&str], deviate: bool, sel: u16, edit: u16) -> String {
    if !deviate {
        return expected.to_string();
    }
    match sel % 9 {
        7 => format!("{} ", expected),
        8 => format!(" {}", expected),
        0 => expected.chars().take(expected.chars().count().saturating_sub(1)).collect(),
        1 => format!("{}{}", expected, ["x", "-", "1", "a"][edit as usize % 4]),
        2 => {
            if expected.chars().any(|c| c.is_ascii_lowercase()) {
                expected.to_ascii_uppercase()
            } else {
                expected.to_ascii_lowercase()
            }
        }
        3 => String::new(),
        4 => {
            let mut b: Vec<char> = expected.chars().collect();
            if b.is_empty() {
                return "x".into();
            }
            let i = pick_idx(edit, b.len());
            b[i] = if b[i] == 'e' { 'f' } else { 'e' };
            b.into_iter().collect()
        }
        _ => others[pick_idx(edit, others.len())].to_string(),
    }
}

/// which of the four scope components deviate: none 25%, exactly one 50%, several 25%
fn deviation_mask() -> BoxedStrategy<[bool; 4]> {
    prop_oneof![
        1 => Just([false; 4]),
        2 => (0usize..4).prop_map(|i| {
            let mut m = [false; 4];
            m[i] = true;
            m
        }),
        1 => any::<[bool; 4]>(),
    ]
    .boxed()
}

fn date_variant(deviate: bool, sel: u16, t: Instant, local: &str, server: &str) -> String {
    let utc = t.date8();
    if !deviate {
        return utc;
    }
    match sel % 13 {
        8 => format!(" {}", utc),
        9 => format!("{} ", utc),
        10 => {
            // drop a leading zero of the day or month (lenient date parsers read it as the same day)
            if &utc[6..7] == "0" {
                format!("{}{}", &utc[..6], &utc[7..])
            } else if &utc[4..5] == "0" {
                format!("{}{}", &utc[..4], &utc[5..])
            } else {
                format!("{}0", utc)
            }
        }
        11 => format!("{} {} {}", &utc[0..4], &utc[4..6], &utc[6..8]),
        12 => format!("+{}", utc),
        0 => t.add_nanos(86_400_000_000_000).date8(),
        1 => t.add_nanos(-86_400_000_000_000).date8(),
        2 => {
            if server != utc {
                server.to_string()
            } else {
                t.add_nanos(86_400_000_000_000).date8()
            }
        }
        3 => {
            if local != utc {
                local.to_string()
            } else {
                t.add_nanos(-86_400_000_000_000).date8()
            }
        }
        4 => utc.chars().take(7).collect(),
        5 => format!("{}-{}-{}", &utc[0..4], &utc[4..6], &utc[6..8]),
        6 => format!("{}T", utc),
        _ => "".into(),
    }
}

pub fn scope_case() -> BoxedStrategy<ScopeCase> {
    (
        plan(quiet_opts()),
        deviation_mask(),
        (any::<u16>(), any::<u16>(), any::<u16>(), any::<u16>()),
        (any::<u16>(), any::<u16>(), any::<u16>(), any::<u16>()),
        prop_oneof![10 => Just(4usize), 1 => 0usize..8, 1 => Just(3usize), 1 => Just(5usize)],
        any::<bool>(),
    )
        .prop_map(|(plan, dev, sel, ed, nparts, follow)| {
            let t = plan.instant;
            let utc = t.date8();
            let local = plan.style.offset_min.map(|o| Instant { secs: t.secs + o as i64 * 60, nanos: 0 }.date8()).unwrap_or(utc.clone());
            let server = plan.cfg.now.date8();
            let date = date_variant(dev[0], sel.0, t, &local, &server);
            let region = variant(&plan.cfg.region, REGIONS, dev[1], sel.1, ed.1);
            let service = variant(&plan.cfg.service, SERVICES, dev[2], sel.2, ed.2);
            let term = variant("aws4_request", &["aws4", "AWS4_REQUEST", "aws4_request/", "aws3_request", "request"], dev[3], sel.3, ed.3);
            let mut parts = vec![date, region, service, term];
            if sel.0 % 16 == 15 {
                // move the boundary between two adjacent components: the concatenation stays the expected one
                let k = (ed.0 as usize) % 3;
                if ed.0 % 2 == 0 && !parts[k].is_empty() {
                    let c = parts[k].pop().unwrap();
                    parts[k + 1].insert(0, c);
                } else if !parts[k + 1].is_empty() {
                    let c = parts[k + 1].remove(0);
                    parts[k].push(c);
                }
            }
            match nparts {
                4 => {}
                n if n < 4 => parts.truncate(n),
                n => {
                    // surplus components after the scope, or between the access key and an otherwise correct scope
                    for i in 4..n {
                        let extra = ["", "x", "aws4_request", "us-east-1"][(ed.0 as usize + i) % 4].to_string();
                        if ed.1 % 2 == 0 {
                            parts.push(extra);
                        } else {
                            parts.insert(0, extra);
                        }
                    }
                }
            }
            ScopeCase { plan, parts, provider_follows_credential: follow }
        })
        .boxed()
}

pub fn direct_case() -> BoxedStrategy<Direct> {
    let structured = (region(), service(), instant(), deviation_mask(), (any::<u16>(), any::<u16>(), any::<u16>(), any::<u16>()), any::<u16>(), prop_oneof![8 => Just(5usize), 1 => 1usize..9])
        .prop_map(|(region, service, t, dev, sel, ed, n)| {
            let date = date_variant(dev[0], sel.0, t, &t.date8(), &t.date8());
            let r = variant(&region, REGIONS, dev[1], sel.1, ed);
            let s = variant(&service, SERVICES, dev[2], sel.2, ed);
            let term = variant("aws4_request", &["aws4", "AWS4_REQUEST", "aws3_request", "request"], dev[3], sel.3, ed);
            let mut parts = vec!["AKID\u{e9}".to_string(), date, r, s, term];
            parts.truncate(n);
            while parts.len() < n {
                if ed % 2 == 0 {
                    parts.push("x".into());
                } else {
                    parts.insert(1, ["x", "", "a"][ed as usize % 3].into());
                }
            }
            (parts.join("/"), region, service, t)
        });
    let free = (prop_oneof![1 => "[ -~]{0,30}", 1 => "\\PC{0,12}(/\\PC{0,8}){0,6}", 1 => vec_parts()], region(), service(), instant());
    (
        prop_oneof![4 => structured.boxed(), 1 => free.boxed()],
        prop_oneof![5 => Just(0i64), 1 => -1000i64..1000, 1 => Just(900), 1 => Just(-900), 1 => Just(901), 1 => Just(-901)],
    )
        .prop_map(|((credential, region, service, t), delta)| Direct { credential, region, service, t, delta_s: delta })
        .boxed()
}

pub fn subs() -> Vec<Box<dyn AnySub>> {
    vec![
        Box::new(Sub { name: "scope-e2e", quick: 40_000, thorough: 600_000, strat: scope_case, check: check_scope }),
        Box::new(Sub {
            name: "accepted-here-refused-under-another-configuration",
            quick: 10_000,
            thorough: 150_000,
            strat: || (plan(quiet_opts()), region(), service(), 0u8..6).prop_map(|(plan, region, service, which)| Switch { plan, region, service, which }).boxed(),
            check: check_switch,
        }),
        Box::new(Sub {
            name: "prevalidate-direct",
            quick: 40_000,
            thorough: 600_000,
            strat: direct_case,
            check: check_direct,
        }),
    ]
}

fn vec_parts() -> BoxedStrategy<String> {
    (proptest::collection::vec(prop_oneof![Just("us-east-1"), Just("service"), Just("aws4_request"), Just("20150830"), Just(""), Just("AKID"), Just("é"), Just("s3"), Just("20000101")], 0..8))
        .prop_map(|v| v.join("/"))
        .boxed()
}

pub fn check_scope(sc: &ScopeCase, cc: &mut CaseCtx) -> CheckResult {
    let p = &sc.plan;
    let base = p.base();
    let credential = std::iter::once(p.spec.access_key.clone()).chain(sc.parts.iter().cloned()).collect::<Vec<_>>().join("/");
    if p.spec.carrier == Carrier::Header && credential.bytes().any(|c| c == b',' || c == b' ') {
        return Ok(());
    }
    let get = |i: usize| sc.parts.get(i).map(|s| s.as_str()).unwrap_or("");
    let key_scope = (get(0).to_string(), get(1).to_string(), get(2).to_string());
    let req = match sign_full(&base, &p.cfg, &p.spec, &credential, (&key_scope.0, &key_scope.1, &key_scope.2)) {
        Ok(s) => s.req,
        Err(_) => attach(&base, &p.cfg, &p.spec, &credential, &"ab".repeat(32)),
    };
    let mut prov = p.provider();
    if sc.provider_follows_credential && sc.parts.len() >= 3 {
        prov.keys[0].derive_as = Some(key_scope.clone());
    }
    let case = Case { req, cfg: p.cfg.clone(), prov };
    let a = analyze(&case);
    let o = exec::run(&case);
    if let exec::Res::Unrepresentable(_) = o.res {
        cc.class("unrepresentable");
        return Ok(());
    }
    let utc = p.instant.date8();
    let deviating = [get(0) != utc, get(1) != p.cfg.region, get(2) != p.cfg.service, get(3) != "aws4_request"].iter().filter(|x| **x).count();
    cc.class(match sc.parts.len() {
        4 => match deviating {
            0 => "scope-correct",
            1 => "one-component-off",
            _ => "several-components-off",
        },
        _ => "wrong-arity",
    });
    cc.class_if(p.cfg.now.date8() != utc, "server-date-differs-from-request-date");
    cc.class_if(p.style.offset_min.is_some() && Instant { secs: p.instant.secs + p.style.offset_min.unwrap() as i64 * 60, nanos: 0 }.date8() != utc, "local-date-differs-from-utc-date");
    cc.class_if(sc.provider_follows_credential && deviating > 0, "valid-under-foreign-scope");
    cc.class_if(p.spec.carrier == Carrier::Query, "query-carrier");
    if !a.verdict().is_specified() {
        cc.unspecified = true;
    } else if deviating <= 1 || sc.parts.len() != 4 || p.cfg.now.date8() != utc {
        cc.nontrivial(digest_of(&[credential.as_bytes(), p.cfg.region.as_bytes(), p.cfg.service.as_bytes(), p.spec.ts_text.as_bytes()]));
        cc.sample(json!({"credential": credential, "server_region": p.cfg.region, "server_service": p.cfg.service, "timestamp": p.spec.ts_text,
            "server_now": p.cfg.now.compact(), "carrier": format!("{:?}", p.spec.carrier), "model": a.verdict().short(), "crate": o.res.short(), "provider_calls": o.calls()}));
    }
    check_against_model(&a, &o)
}

#[derive(Clone, Debug, Serialize, Deserialize)]
pub struct Switch {
    pub plan: Plan,
    pub region: String,
    pub service: String,
    /// 0 other region, 1 other service, 2 both, 3 region and service exchanged, 4 server a day later, 5 through prevalidate
    pub which: u8,
}

/// One process serving several (region, service) configurations: a request accepted under its own
/// configuration is presented, immediately afterwards and on the same thread, to another one.
pub fn check_switch(sw: &Switch, cc: &mut CaseCtx) -> CheckResult {
    let Ok(built) = sw.plan.build() else {
        cc.class("unsignable");
        return Ok(());
    };
    let first = &built.case;
    let (a1, o1) = (analyze(first), exec::run(first));
    if let exec::Res::Unrepresentable(_) = o1.res {
        return Ok(());
    }
    check_against_model(&a1, &o1)?;
    let mut second = first.clone();
    match sw.which {
        0 => second.cfg.region = sw.region.clone(),
        1 => second.cfg.service = sw.service.clone(),
        2 => {
            second.cfg.region = sw.region.clone();
            second.cfg.service = sw.service.clone();
        }
        3 => std::mem::swap(&mut second.cfg.region, &mut second.cfg.service),
        4 => second.cfg.now = second.cfg.now.add_nanos(86_400_000_000_000),
        _ => {}
    }
    if sw.which == 5 {
        // the same through the authenticator's own entry point
        use scratchstack_aws_signature::auth::SigV4AuthenticatorBuilder;
        let credential = format!("{}/{}/{}/{}/aws4_request", sw.plan.spec.access_key, sw.plan.instant.date8(), sw.plan.cfg.region, sw.plan.cfg.service);
        let (Some(ts), Some(now)) = (exec::to_datetime(sw.plan.instant), exec::to_datetime(sw.plan.cfg.now)) else { return Ok(()) };
        let mut verdicts = Vec::new();
        for (r, s) in [(&sw.plan.cfg.region, &sw.plan.cfg.service), (&sw.region, &sw.plan.cfg.service), (&sw.plan.cfg.region, &sw.service), (&sw.plan.cfg.region, &sw.plan.cfg.service)] {
            let got = std::panic::catch_unwind(|| {
                let mut b = SigV4AuthenticatorBuilder::default();
                b.credential(credential.clone()).signature("sig".to_string()).request_timestamp(ts).canonical_request_sha256([0u8; 32]);
                b.build().map(|auth| auth.prevalidate(r, s, now, chrono::Duration::minutes(15)).is_ok()).unwrap_or(false)
            })
            .map_err(|p| Failure::new("panic:prevalidate", exec::panic_message(p)))?;
            let want = *r == sw.plan.cfg.region && *s == sw.plan.cfg.service;
            verdicts.push((r.clone(), s.clone(), got, want));
        }
        cc.class("prevalidate-sequence");
        cc.nontrivial(digest_of(&[credential.as_bytes(), sw.region.as_bytes(), sw.service.as_bytes()]));
        if let Some((r, s, got, want)) = verdicts.iter().find(|v| v.2 != v.3) {
            return Err(Failure::new(
                if *got { "direct-accepted-bad-scope-after-switch" } else { "direct-rejected-valid-scope-after-switch" },
                format!("credential {} for (region {:?}, service {:?}): accepted={} expected={} in the sequence {:?}", credential, r, s, got, want, verdicts),
            ));
        }
        return Ok(());
    }
    let (a2, o2) = (analyze(&second), exec::run(&second));
    let changed = second.cfg != first.cfg;
    cc.class(match sw.which {
        0 => "other-region",
        1 => "other-service",
        2 => "other-region-and-service",
        3 => "region-and-service-exchanged",
        _ => "server-a-day-later",
    });
    if o1.res.is_ok() && changed && a2.verdict().is_specified() {
        cc.nontrivial(digest_of(&[&first.req.digest().to_le_bytes(), format!("{:?}", second.cfg).as_bytes()]));
        cc.sample(json!({"accepted_under": format!("{}/{}", first.cfg.region, first.cfg.service), "then_presented_to": format!("{}/{} now={}", second.cfg.region, second.cfg.service, second.cfg.now.compact()),
            "model": a2.verdict().short(), "crate": o2.res.short(), "provider_calls": o2.calls()}));
    }
    if !a2.verdict().is_specified() {
        cc.unspecified = true;
    }
    check_against_model(&a2, &o2)?;
    // and back again: the first configuration still accepts it
    let o3 = exec::run(first);
    check_against_model(&a1, &o3)
}

#[derive(Clone, Debug, Serialize, Deserialize)]
pub struct Direct {
    pub credential: String,
    pub region: String,
    pub service: String,
    pub t: Instant,
    pub delta_s: i64,
}

/// Arbitrary credential strings straight into prevalidate (no HTTP carrier limits).
pub fn check_direct(d: &Direct, cc: &mut CaseCtx) -> CheckResult {
    use scratchstack_aws_signature::auth::SigV4AuthenticatorBuilder;
    let Some(ts) = exec::to_datetime(d.t) else { return Ok(()) };
    let Some(now) = exec::to_datetime(Instant { secs: d.t.secs - d.delta_s, nanos: d.t.nanos }) else { return Ok(()) };
    let r = std::panic::catch_unwind(|| {
        let mut b = SigV4AuthenticatorBuilder::default();
        b.credential(d.credential.clone()).signature("sig".to_string()).request_timestamp(ts).canonical_request_sha256([0u8; 32]);
        let auth = b.build().map_err(|e| e.to_string())?;
        Ok::<_, String>(auth.prevalidate(&d.region, &d.service, now, chrono::Duration::minutes(15)).map_err(|e| exec::err_info(&e)))
    });
    let r = match r {
        Err(p) => return Err(Failure::new("panic:prevalidate", format!("prevalidate panicked: {}", exec::panic_message(p)))),
        Ok(Err(e)) => return Err(harness_bug(format!("builder refused: {}", e))),
        Ok(Ok(r)) => r,
    };
    let parts: Vec<&str> = d.credential.split('/').collect();
    let expect: Result<(), Kind> = if d.delta_s.abs() > 900 {
        Err(Kind::SignatureDoesNotMatch)
    } else if parts.len() != 5 {
        Err(Kind::IncompleteSignature)
    } else if parts[1] == d.t.date8() && parts[2] == d.region && parts[3] == d.service && parts[4] == "aws4_request" {
        Ok(())
    } else {
        Err(Kind::SignatureDoesNotMatch)
    };
    cc.class(match (&expect, parts.len()) {
        (Ok(()), _) => "accept",
        (Err(_), 5) => "five-parts-mismatch",
        _ => "arity-or-window",
    });
    cc.nontrivial(digest_of(&[d.credential.as_bytes(), d.region.as_bytes(), d.service.as_bytes(), &d.t.secs.to_le_bytes()]));
    cc.sample(json!({"credential": d.credential, "region": d.region, "service": d.service, "request_time": d.t.compact(), "delta_s": d.delta_s, "expect": format!("{:?}", expect)}));
    match (expect, r) {
        (Ok(()), Ok(())) => Ok(()),
        (Err(k), Err(e)) => {
            check_taxonomy(&e)?;
            if e.kind == Some(k) {
                Ok(())
            } else {
                Err(Failure::new(&format!("direct-wrong-kind:{:?}", e.kind), format!("expected {:?}, got {:?}: {}", k, e.kind, e.msg)))
            }
        }
        (Ok(()), Err(e)) => Err(Failure::new("direct-rejected-valid-scope", format!("scope is correct but prevalidate said {:?}: {}", e.kind, e.msg))),
        (Err(k), Ok(())) => Err(Failure::new("direct-accepted-bad-scope", format!("prevalidate accepted; expected {:?}", k))),
    }
}
