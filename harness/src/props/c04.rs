//! C04 -- freshness: accepted iff now-15min <= t <= now+15min (inclusive), whatever the rendering.

use super::common::*;
use crate::engine::*;
use crate::exec;
use crate::gen::*;
use crate::model::time::{Instant, TsStyle};
use crate::model::verify::*;
use proptest::prelude::*;
use serde::{Deserialize, Serialize};
use serde_json::json;

pub const RULE: &str = "enumerated: every whole-second offset in [-1200s,+1200s] (2401 values) and the nanosecond neighbours of both bounds, plus offsets of decades to millennia and the neighbourhoods of 2^31 s, 2^32 s and 2^63 ns, at a list of server instants (mid-day, 00:00:00, 23:59:59.999999999, month/year/leap-day boundaries, years 1 and 9999 edges), on both carriers; generated: random (server instant, offset in ns) pairs biased to the bounds x renderings (basic/extended, Z, +-hh:mm / +-hhmm zones, 0-12 fraction digits). Every request is reference-signed, so inside the window nothing but the timestamp could cause refusal. The random sub-check also scripts the key provider's readiness (pending, or failing with any error kind): outside the window that must not be visible. Oracle (i128 ns arithmetic): Ok iff -900s <= t-now <= +900s; outside: SignatureDoesNotMatch/403 with zero provider calls; all renderings of one instant get one verdict. Non-trivial: |offset| within 2s of a bound, or a sub-second component, or a non-Z/extended/fractional rendering, or a boundary server instant; distinct by (request text, server instant).";

#[derive(Clone, Debug, Serialize, Deserialize)]
pub struct WindowCase {
    pub plan: Plan,
    /// t - now, nanoseconds
    pub delta: i128,
    /// the key provider's readiness: Pending this many times, then (if Some) an error of this kind instead of Ready.
    /// Outside the window none of it may matter: the request is refused before the provider is involved.
    #[serde(default)]
    pub provider_ready: (u8, Option<u8>),
}

const W: i128 = 900_000_000_000;

pub fn delta_any() -> BoxedStrategy<i128> {
    prop_oneof![
        2 => -1_300_000_000_000i128..=1_300_000_000_000,
        2 => (-3_000_000_000i128..=3_000_000_000).prop_map(|x| W + x),
        2 => (-3_000_000_000i128..=3_000_000_000).prop_map(|x| -W + x),
        1 => prop_oneof![Just(W), Just(-W), Just(W + 1), Just(-W - 1), Just(W - 1), Just(-W + 1), Just(0i128)],
        1 => (-1200i128..=1200).prop_map(|s| s * 1_000_000_000),
        1 => prop_oneof![Just(86_400_000_000_000i128), Just(-86_400_000_000_000), Just(3_600_000_000_000), Just(-3_600_000_000_000)],
        // far apart: years to millennia, and the neighbourhood of what 64-bit second / millisecond / microsecond /
        // nanosecond counters can hold (2^63 ns is about 292 years, 2^31 s about 68 years, 2^32 s about 136 years)
        1 => (-9_000i128..=9_000).prop_map(|y| y * 31_556_952_000_000_000),
        1 => (prop_oneof![Just(1i128 << 63), Just((1i128 << 31) * 1_000_000_000), Just((1i128 << 32) * 1_000_000_000), Just((1i128 << 53) * 1_000), Just(i64::MAX as i128), Just(1i128 << 62)], -2i128..=2, any::<bool>())
            .prop_map(|(m, d, neg)| if neg { -(m + d) } else { m + d }),
    ]
    .boxed()
}

pub fn subs() -> Vec<Box<dyn AnySub>> {
    vec![
        Box::new(EnumSub { name: "sweep", exhaustive: true, list: sweep_list, check: check_window }),
        Box::new(Sub {
            name: "random",
            quick: 30_000,
            thorough: 600_000,
            strat: || {
                (plan(quiet_opts()), delta_any(), prop_oneof![3 => Just((0u8, None)), 1 => (0u8..4, prop_oneof![1 => Just(None), 2 => (0u8..14).prop_map(Some)])])
                    .prop_map(|(mut plan, delta, provider_ready)| {
                        plan.cfg.now = plan.instant.add_nanos(-delta);
                        WindowCase { plan, delta, provider_ready }
                    })
                    .prop_filter("server time in years 1..9999", |w| {
                        let y = w.plan.cfg.now.year();
                        (1..=9999).contains(&y)
                    })
                    .boxed()
            },
            check: check_window,
        }),
        // ONE authenticator object asked several times, with different server clocks: each answer is the window's
        Box::new(Sub {
            name: "same-authenticator-asked-again",
            quick: 20_000,
            thorough: 300_000,
            strat: || (instant(), proptest::collection::vec(delta_any(), 2..6), any::<bool>()).prop_map(|(t, deltas, through_request)| Again { t, deltas, through_request }).boxed(),
            check: check_again,
        }),
        Box::new(Sub {
            name: "renderings",
            quick: 10_000,
            thorough: 200_000,
            strat: || {
                (plan(quiet_opts()), delta_any(), ts_style(), ts_style(), 0u8..16)
                    .prop_map(|(plan, delta, s1, s2, pad)| {
                        // keep the instant exactly representable in both styles: whole seconds
                        let inst = Instant { secs: plan.instant.secs, nanos: 0 };
                        let mut p1 = plan.clone().with_time(inst, s1);
                        if p1.spec.carrier == Carrier::Header && pad & 3 != 3 {
                            // optional white space around the header value is not part of the rendering
                            p1.spec.ts_text = format!("{}{}{}", " ".repeat((pad & 3) as usize), p1.spec.ts_text, " ".repeat((pad >> 2) as usize));
                        }
                        p1.cfg.now = inst.add_nanos(-delta);
                        Pair { a: WindowCase { plan: p1, delta, provider_ready: (0, None) }, style_b: s2 }
                    })
                    .prop_filter("server time in years 1..9999", |w| (1..=9999).contains(&w.a.plan.cfg.now.year()))
                    .boxed()
            },
            check: check_pair,
        }),
    ]
}

fn server_instants(tier: Tier) -> Vec<Instant> {
    let mut v = vec![
        Instant::from_civil(2015, 8, 30, 12, 36, 0, 0),
        Instant::from_civil(2024, 2, 29, 0, 0, 0, 0),
    ];
    if tier == Tier::Thorough {
        v.extend([
            Instant::from_civil(2021, 12, 31, 23, 59, 59, 999_999_999),
            Instant::from_civil(2023, 3, 1, 0, 5, 0, 0),
            Instant::from_civil(2000, 2, 29, 23, 50, 0, 500_000_000),
            Instant::from_civil(1, 1, 1, 0, 30, 0, 0),
            Instant::from_civil(9999, 12, 31, 23, 29, 59, 0),
            Instant::from_civil(1970, 1, 1, 0, 0, 0, 0),
            Instant::from_civil(1969, 12, 31, 23, 59, 59, 1),
            Instant::from_civil(2016, 12, 31, 23, 59, 59, 0),
        ]);
    }
    v
}

fn sweep_list(tier: Tier) -> Vec<WindowCase> {
    let mut out = Vec::new();
    let styles = [
        TsStyle::BASIC_Z,
        TsStyle { extended: true, offset_min: Some(330), frac_digits: 9, comma: false, extra: 0 },
    ];
    for (si, now) in server_instants(tier).into_iter().enumerate() {
        for carrier in [Carrier::Header, Carrier::Query] {
            let mut deltas: Vec<i128> = (-1200i128..=1200).map(|s| s * 1_000_000_000).collect();
            for e in [W, -W] {
                for d in [-2i128, -1, 0, 1, 2, 999_999_999, -999_999_999, 500_000_000, -500_000_000] {
                    deltas.push(e + d);
                }
            }
            for m in [1i128 << 63, (1i128 << 31) * 1_000_000_000, (1i128 << 32) * 1_000_000_000, 100 * 31_556_952_000_000_000, 300 * 31_556_952_000_000_000, 1000 * 31_556_952_000_000_000] {
                for d in [-1_000_000_000i128, -1, 0, 1, 1_000_000_000] {
                    deltas.push(m + d);
                    deltas.push(-(m + d));
                }
            }
            for delta in deltas {
                let t = now.add_nanos(delta);
                if !(1..=9999).contains(&t.year()) {
                    continue;
                }
                // sub-second instants need the nanosecond rendering
                let style = if t.nanos != 0 { styles[1] } else { styles[(si + (delta / 1_000_000_000) as usize % 2) % 2] };
                let mut plan = simple_plan(carrier).with_time(t, style);
                plan.cfg.now = now;
                out.push(WindowCase { plan, delta, provider_ready: (0, None) });
            }
        }
    }
    out
}

fn run_one(w: &WindowCase, cc: &mut CaseCtx) -> Result<Option<bool>, Failure> {
    let Ok(mut built) = w.plan.build() else {
        cc.class("unsignable");
        return Ok(None);
    };
    built.case.prov.ready_pending = w.provider_ready.0;
    built.case.prov.ready_err = w.provider_ready.1.map(|k| match k {
        13 => crate::types::Answer::Foreign(format!("key service unavailable ({})", w.provider_ready.0)),
        k => crate::types::Answer::SigErr(crate::types::Kind::ALL[k as usize % 12], format!("key service says no ({})", k)),
    });
    let a = analyze(&built.case);
    let o = exec::run(&built.case);
    if let exec::Res::Unrepresentable(_) = o.res {
        cc.class("unrepresentable");
        return Ok(None);
    }
    // the delta the case records must be the delta the model sees (harness consistency)
    let real = w.plan.instant.total_nanos() - w.plan.cfg.now.total_nanos();
    let inside = real >= -W && real <= W;
    if !a.verdict().is_specified() {
        cc.unspecified = true;
        check_total(&o)?;
        return Ok(None);
    }
    match a.verdict() {
        Verdict::Accept if inside => {}
        Verdict::Reject { rank, .. } if inside && *rank == R_PROVIDER && w.provider_ready.1.is_some() => {}
        Verdict::Reject { rank, .. } if !inside && (*rank == R_EXPIRED || *rank == R_FUTURE) => {}
        other => return Err(harness_bug(format!("window model inconsistent: delta {} verdict {}", real, other.short()))),
    }
    let near = (real.abs() - W).abs() <= 2_000_000_000;
    cc.class(if inside { "inside" } else { "outside" });
    cc.class_if(near, "within-2s-of-bound");
    cc.class_if(real == W || real == -W, "exactly-on-bound");
    cc.class_if(w.plan.instant.nanos != 0 || w.plan.cfg.now.nanos != 0, "sub-second");
    cc.class_if(w.plan.style.offset_min.is_some(), "zone-offset");
    cc.class_if(!inside && w.provider_ready != (0, None), "outside-with-a-provider-that-is-not-ready");
    // outside the window the provider is not involved at all, not even its readiness
    if !inside && !o.prov_log.is_empty() {
        return Err(Failure::new("provider-touched-outside-the-window", format!("{} ns from the server clock, yet the provider saw {:?}", real, o.prov_log)));
    }
    cc.class_if(w.plan.instant.date8() != w.plan.cfg.now.date8(), "crosses-midnight");
    if near || w.plan.instant.nanos != 0 || w.plan.cfg.now.nanos != 0 || w.plan.style != TsStyle::BASIC_Z || w.plan.instant.date8() != w.plan.cfg.now.date8() {
        cc.nontrivial(digest_of(&[w.plan.spec.ts_text.as_bytes(), &w.plan.cfg.now.total_nanos().to_le_bytes(), &[w.plan.spec.carrier as u8]]));
        cc.sample(json!({"request_time": w.plan.spec.ts_text, "server_now": format!("{}+{}ns", w.plan.cfg.now.compact(), w.plan.cfg.now.nanos), "delta_ns": real.to_string(),
            "carrier": format!("{:?}", w.plan.spec.carrier), "model": a.verdict().short(), "crate": o.res.short()}));
    }
    check_against_model(&a, &o)?;
    Ok(Some(o.res.is_ok()))
}

pub fn check_window(w: &WindowCase, cc: &mut CaseCtx) -> CheckResult {
    run_one(w, cc).map(|_| ())
}

#[derive(Clone, Debug, Serialize, Deserialize)]
pub struct Again {
    pub t: Instant,
    /// t - now for each question, nanoseconds
    pub deltas: Vec<i128>,
    /// build the authenticator from a request (CanonicalRequest::get_authenticator) instead of through the builder
    pub through_request: bool,
}

pub fn check_again(ag: &Again, cc: &mut CaseCtx) -> CheckResult {
    use scratchstack_aws_signature::auth::SigV4AuthenticatorBuilder;
    let Some(ts) = exec::to_datetime(ag.t) else { return Ok(()) };
    let credential = format!("AKIDEXAMPLE/{}/us-east-1/service/aws4_request", ag.t.date8());
    let questions: Vec<(i128, chrono::DateTime<chrono::Utc>)> = ag.deltas.iter().filter_map(|d| exec::to_datetime(ag.t.add_nanos(-*d)).map(|n| (*d, n))).collect();
    let r = std::panic::catch_unwind(std::panic::AssertUnwindSafe(|| {
        let auth = if ag.through_request {
            use scratchstack_aws_signature::canonical::CanonicalRequest;
            let req = http::Request::builder()
                .method("GET")
                .uri("/")
                .header("host", "h.example")
                .header("x-amz-date", crate::model::time::render(Instant { secs: ag.t.secs, nanos: 0 }, TsStyle::BASIC_Z))
                .header("authorization", format!("AWS4-HMAC-SHA256 Credential={}, SignedHeaders=host;x-amz-date, Signature={}", credential, "0".repeat(64)))
                .body(bytes::Bytes::new())
                .map_err(|e| e.to_string())?;
            let (parts, body) = req.into_parts();
            let (cr, _, _) = CanonicalRequest::from_request_parts(parts, body, scratchstack_aws_signature::SignatureOptions::default()).map_err(|e| e.to_string())?;
            cr.get_authenticator(&scratchstack_aws_signature::NO_ADDITIONAL_SIGNED_HEADERS).map_err(|e| e.to_string())?
        } else {
            let mut b = SigV4AuthenticatorBuilder::default();
            b.credential(credential.clone()).signature("sig".to_string()).request_timestamp(ts).canonical_request_sha256([0u8; 32]);
            b.build().map_err(|e| e.to_string())?
        };
        let mut answers = Vec::new();
        for (_, now) in &questions {
            answers.push(auth.prevalidate("us-east-1", "service", *now, chrono::Duration::minutes(15)).map_err(|e| exec::err_info(&e)));
        }
        Ok::<_, String>(answers)
    }));
    let answers = match r {
        Err(p) => return Err(Failure::new("panic:prevalidate", format!("prevalidate panicked: {}", exec::panic_message(p)))),
        Ok(Err(e)) => return Err(harness_bug(format!("authenticator could not be built: {}", e))),
        Ok(Ok(a)) => a,
    };
    // through a request the timestamp has whole seconds
    let t = if ag.through_request { Instant { secs: ag.t.secs, nanos: 0 } } else { ag.t };
    let mut kinds = (false, false);
    for (k, ((_, now), got)) in questions.iter().zip(answers.iter()).enumerate() {
        let now_i = Instant { secs: now.timestamp(), nanos: now.timestamp_subsec_nanos() };
        let real = t.total_nanos() - now_i.total_nanos();
        let inside = real >= -W && real <= W;
        kinds.0 |= inside;
        kinds.1 |= !inside;
        match (inside, got) {
            (true, Ok(())) => {}
            (false, Err(e)) if e.kind == Some(crate::types::Kind::SignatureDoesNotMatch) => {}
            (true, Err(e)) => return Err(Failure::new("again-rejected-inside", format!("question {} of {} to one authenticator ({} ns from the server clock): refused with {:?} {}", k + 1, questions.len(), real, e.kind, e.msg))),
            (false, Ok(())) => return Err(Failure::new("again-accepted-outside", format!("question {} of {} to one authenticator: {} ns from the server clock, yet prevalidate says Ok (earlier questions: {:?})", k + 1, questions.len(), real, &ag.deltas[..k]))),
            (false, Err(e)) => return Err(Failure::new("again-wrong-kind", format!("outside the window the answer is {:?}, expected SignatureDoesNotMatch", e.kind))),
        }
    }
    cc.class("asked-again");
    cc.class_if(kinds.0 && kinds.1, "inside-and-outside-in-one-sequence");
    if kinds.0 && kinds.1 {
        cc.nontrivial(digest_of(&[format!("{:?}", ag).as_bytes()]));
        cc.sample(json!({"request_time": ag.t.compact(), "offsets_ns": ag.deltas.iter().map(|d| d.to_string()).collect::<Vec<_>>(), "through_request": ag.through_request}));
    }
    Ok(())
}

#[derive(Clone, Debug, Serialize, Deserialize)]
pub struct Pair {
    pub a: WindowCase,
    pub style_b: TsStyle,
}

/// Two renderings of the same instant get the same verdict.
pub fn check_pair(p: &Pair, cc: &mut CaseCtx) -> CheckResult {
    let mut c1 = CaseCtx::default();
    let r1 = run_one(&p.a, &mut c1)?;
    let inst = p.a.plan.instant;
    let mut b = p.a.clone();
    b.plan = b.plan.with_time(inst, p.style_b);
    if b.plan.instant != inst {
        return Err(harness_bug("second rendering changed the instant"));
    }
    let r2 = run_one(&b, cc)?;
    if let (Some(x), Some(y)) = (r1, r2) {
        if x != y {
            return Err(Failure::new("rendering-dependent-verdict", format!("{} accepted={} but {} accepted={}", p.a.plan.spec.ts_text, x, b.plan.spec.ts_text, y)));
        }
    }
    Ok(())
}
