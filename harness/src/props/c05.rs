//! C05 -- mandatory signed headers are enforced before a request can be accepted.

use super::common::*;
use crate::engine::*;
use crate::exec;
use crate::gen::*;
use crate::model::sign::sign;
use crate::model::verify::*;
use crate::types::*;
use proptest::prelude::*;
use scratchstack_aws_signature::{SignedHeaderRequirements, VecSignedHeaderRequirements};
use serde::{Deserialize, Serialize};
use serde_json::json;
use std::collections::BTreeSet;

pub const RULE: &str = "generated: requirement set (always / if-in-request / prefix names in random letter case, duplicates, built through SliceSignedHeaderRequirements::new, VecSignedHeaderRequirements::new or add_* calls) x request header multiset (names colliding with the declared names and prefixes, several prefix matches) x signed-header list obtained from the complete list by dropping generated entries (possibly required ones, possibly host); the request is CORRECTLY SIGNED over whatever list it carries. Oracle: Ok iff the list contains host and every required header (model of the three rules), else SignatureDoesNotMatch/403 with zero provider calls. Second check: operation sequences (add_*/remove_* with mixed-case names) on VecSignedHeaderRequirements against a three-set model compared through the trait accessors after every step. Non-trivial: valid signature and the verdict is decided by the requirement check (a required header missing, or none missing with >=2 declared requirements); distinct by (requirements, header names, signed list).";

#[derive(Clone, Debug, Serialize, Deserialize)]
pub struct ReqCase {
    pub plan: Plan,
    /// entries (scaled indices into the complete signed list) to drop before signing
    pub drop: Vec<u16>,
    /// also remove the dropped header from the request itself (so every header the request carries stays signed)
    #[serde(default)]
    pub remove_from_request: bool,
}

#[derive(Clone, Debug, Serialize, Deserialize)]
pub struct HostCase {
    pub plan: Plan,
    /// 9, 10, 11, 2, 3
    pub version: u8,
    pub host_header: bool,
    /// what the signed list names: 0 neither, 1 host, 2 :authority, 3 both
    pub listed: u8,
    pub absolute_target: bool,
}

/// "host (or :authority) is in the signed list" holds for every HTTP version, request-target form and whether or not a
/// Host header field is carried (HTTP/2+ servers hand the authority over in the target).
pub fn check_host_rule(h: &HostCase, cc: &mut CaseCtx) -> CheckResult {
    let mut p = h.plan.clone();
    if !h.host_header {
        p.logical.headers.retain(|(n, _)| n != "host");
    }
    p.spec.signed_headers.retain(|x| x != "host" && x != ":authority");
    if h.listed & 1 != 0 {
        p.spec.signed_headers.push("host".into());
    }
    if h.listed & 2 != 0 {
        p.spec.signed_headers.push(":authority".into());
    }
    p.spec.signed_headers.sort();
    p.spelling.version = h.version;
    p.spelling.absolute_form = if h.absolute_target { 1 + h.version % 3 } else { 0 };
    let Ok(built) = p.build() else {
        cc.class("unsignable");
        return Ok(());
    };
    let (a, o) = (analyze(&built.case), exec::run(&built.case));
    if let exec::Res::Unrepresentable(_) = o.res {
        return Ok(());
    }
    if !a.verdict().is_specified() {
        cc.unspecified = true;
        return check_total(&o);
    }
    cc.class(match h.listed {
        0 => "neither-listed",
        1 => "host-listed",
        2 => "authority-listed",
        _ => "both-listed",
    });
    cc.class_if(!h.host_header, "no-host-header-field");
    cc.class_if(h.version == 2 || h.version == 3, "http2-or-3");
    cc.nontrivial(digest_of(&[&built.case.req.digest().to_le_bytes(), &[h.version, h.host_header as u8, h.listed, h.absolute_target as u8]]));
    if !h.host_header || h.listed == 0 {
        cc.sample(json!({"version": h.version, "host_header_field": h.host_header, "signed_list": p.spec.signed_headers, "target": built.case.req.uri.chars().take(60).collect::<String>(), "model": a.verdict().short(), "crate": o.res.short()}));
    }
    check_against_model(&a, &o).map_err(|f| Failure::new(&format!("host-rule:{}", f.sig), format!("HTTP version code {}, Host header field {}, signed list {:?}: {}", h.version, if h.host_header { "present" } else { "absent" }, p.spec.signed_headers, f.msg)))
}

pub fn subs() -> Vec<Box<dyn AnySub>> {
    vec![
        Box::new(Sub {
            name: "host-rule-across-http-versions",
            quick: 10_000,
            thorough: 150_000,
            strat: || {
                (plan(quiet_opts()), prop_oneof![Just(9u8), Just(10), Just(11), Just(2), Just(3)], any::<bool>(), 0u8..4, any::<bool>())
                    .prop_map(|(plan, version, host_header, listed, absolute_target)| HostCase { plan, version, host_header, listed, absolute_target })
                    .boxed()
            },
            check: check_host_rule,
        }),
        Box::new(Sub {
            name: "requirements-e2e",
            quick: 40_000,
            thorough: 600_000,
            strat: || {
                let o = PlanOpts {
                    logical: LogicalOpts { max_segments: 1, max_query: 1, max_headers: 6, body_class: 0, raw_segments: false },
                    rich_reqs: true,
                    allow_s3: false,
                    plain_spelling: false,
                    ..PlanOpts::default()
                };
                (plan(o), proptest::collection::vec(any::<u16>(), 0..3), any::<bool>()).prop_map(|(plan, drop, remove_from_request)| ReqCase { plan, drop, remove_from_request }).boxed()
            },
            check: check_reqs,
        }),
        Box::new(Sub {
            name: "required-headers-are-bound",
            quick: 30_000,
            thorough: 400_000,
            strat: || {
                let o = PlanOpts {
                    logical: LogicalOpts { max_segments: 1, max_query: 1, max_headers: 5, body_class: 0, raw_segments: false },
                    rich_reqs: true,
                    allow_s3: false,
                    allow_fold: false,
                    form_bodies: false,
                    plain_spelling: true,
                    ..PlanOpts::default()
                };
                (plan(o), proptest::collection::vec(prop_oneof![2 => Just(0u8), 1 => 1u8..8], 8), any::<bool>()).prop_map(|(plan, entry_case, verbatim)| BoundCase { plan, entry_case, verbatim }).boxed()
            },
            check: check_bound,
        }),
        Box::new(Sub {
            name: "vec-requirements-ops",
            quick: 20_000,
            thorough: 300_000,
            strat: || proptest::collection::vec((0u8..6, any::<u16>(), any::<u8>()), 0..24).prop_map(|ops| OpsCase { ops }).boxed(),
            check: check_ops,
        }),
    ]
}

pub fn check_reqs(rc: &ReqCase, cc: &mut CaseCtx) -> CheckResult {
    let p = &rc.plan;
    let mut spec = p.spec.clone();
    let mut dropped: Vec<String> = Vec::new();
    for d in &rc.drop {
        if spec.signed_headers.is_empty() {
            break;
        }
        let i = pick_idx(*d, spec.signed_headers.len());
        dropped.push(spec.signed_headers.remove(i));
    }
    let mut base = p.base();
    if rc.remove_from_request {
        for d in &dropped {
            if d != "host" {
                base.headers.retain(|(n, _)| !n.eq_ignore_ascii_case(d));
            }
        }
    }
    let Ok(signed) = sign(&base, &p.cfg, &spec) else {
        cc.class("unsignable");
        return Ok(());
    };
    let mut case = Case { req: signed.req, cfg: p.cfg.clone(), prov: p.provider() };
    if !rc.remove_from_request && !dropped.is_empty() && rc.drop[0] % 3 == 0 {
        // the client nominates the headers it left unsigned as hop-by-hop: they are still headers of this request
        let names: Vec<&str> = dropped.iter().map(|s| s.as_str()).filter(|d| *d != "host").collect();
        if !names.is_empty() {
            let v = format!("{}{}", if rc.drop[0] % 2 == 0 { "close, " } else { "" }, names.join(", "));
            case.req.headers.push((["Connection", "connection", "Proxy-Connection", "Keep-Alive"][rc.drop[0] as usize / 3 % 4].into(), B::from(v)));
            cc.class("unsigned-headers-nominated-in-connection");
        }
    }
    let a = analyze(&case);
    let o = exec::run(&case);
    if let exec::Res::Unrepresentable(_) = o.res {
        cc.class("unrepresentable");
        return Ok(());
    }
    let nreq = p.cfg.reqs.always.len() + p.cfg.reqs.if_in_request.len() + p.cfg.reqs.prefixes.len();
    let prefix_matches = p
        .cfg
        .reqs
        .prefixes
        .iter()
        .map(|pf| case.req.headers.iter().filter(|(n, _)| n.to_ascii_lowercase().starts_with(&pf.to_lowercase())).count())
        .max()
        .unwrap_or(0);
    match a.verdict() {
        Verdict::Unspecified { .. } => {
            cc.unspecified = true;
        }
        Verdict::Reject { rank, .. } if *rank == R_SIGNED_HEADERS => {
            cc.class("required-header-missing");
            cc.class_if(dropped.iter().any(|d| d == "host"), "host-dropped");
            cc.nontrivial(digest_of(&[format!("{:?}", p.cfg.reqs).as_bytes(), spec.signed_headers.join(";").as_bytes(), format!("{:?}", case.req.headers.iter().map(|(n, _)| n).collect::<Vec<_>>()).as_bytes()]));
        }
        Verdict::Accept => {
            cc.class(if dropped.is_empty() { "complete-list" } else { "dropped-only-optional" });
            if nreq >= 2 {
                cc.class("accept-with>=2-requirements");
                cc.nontrivial(digest_of(&[format!("{:?}", p.cfg.reqs).as_bytes(), spec.signed_headers.join(";").as_bytes(), format!("{:?}", case.req.headers.iter().map(|(n, _)| n).collect::<Vec<_>>()).as_bytes()]));
            }
        }
        _ => {
            cc.class("decided-elsewhere");
        }
    }
    cc.class_if(prefix_matches >= 2, "several-prefix-matches");
    cc.class_if(rc.remove_from_request && !dropped.is_empty(), "dropped-header-also-absent-from-request");
    cc.class_if(p.cfg.reqs.route == 0, "route-slice");
    cc.class_if(p.cfg.reqs.route == 1, "route-vec-new");
    cc.class_if(p.cfg.reqs.route == 2, "route-vec-add");
    cc.class_if(p.cfg.reqs.route == 3, "route-vec-new-then-remove-surplus");
    cc.class_if(p.cfg.reqs.route == 4, "route-vec-add-then-remove-surplus");
    cc.class_if(p.cfg.reqs.always.iter().chain(&p.cfg.reqs.if_in_request).chain(&p.cfg.reqs.prefixes).any(|n| n.bytes().any(|c| c.is_ascii_uppercase())), "mixed-case-declaration");
    if cc.nontrivial.is_some() {
        cc.sample(json!({"requirements": p.cfg.reqs, "request_headers": case.req.headers.iter().map(|(n, _)| n.clone()).collect::<Vec<_>>(),
            "signed_list": spec.signed_headers, "dropped": dropped, "carrier": format!("{:?}", p.spec.carrier), "model": a.verdict().short(), "crate": o.res.short(), "provider_calls": o.calls()}));
    }
    check_against_model(&a, &o)
}

#[derive(Clone, Debug, Serialize, Deserialize)]
pub struct OpsCase {
    /// (operation 0..5, name selector, case pattern)
    pub ops: Vec<(u8, u16, u8)>,
}

const NAMES: &[&str] = &["content-type", "etag", "x-amz-", "x-amz-meta-", "host", "a", "x-custom"];

fn lower_set(v: &[std::borrow::Cow<'_, str>]) -> BTreeSet<String> {
    v.iter().map(|s| s.to_lowercase()).collect()
}

/// VecSignedHeaderRequirements behaves as three case-insensitive sets.
pub fn check_ops(oc: &OpsCase, cc: &mut CaseCtx) -> CheckResult {
    let mut real = VecSignedHeaderRequirements::default();
    let mut model: [BTreeSet<String>; 3] = [BTreeSet::new(), BTreeSet::new(), BTreeSet::new()];
    let mut removed_after_add = false;
    for (step, (op, sel, pat)) in oc.ops.iter().enumerate() {
        let name = spell_header_name(NAMES[pick_idx(*sel, NAMES.len())], *pat);
        let lc = name.to_lowercase();
        let r = std::panic::catch_unwind(std::panic::AssertUnwindSafe(|| match op % 6 {
            0 => real.add_always_present(&name),
            1 => real.add_if_in_request(&name),
            2 => real.add_prefix(&name),
            3 => real.remove_always_present(&name),
            4 => real.remove_if_in_request(&name),
            _ => real.remove_prefix(&name),
        }));
        if r.is_err() {
            return Err(Failure::new("panic:vec-requirements", format!("operation {} on '{}' panicked", op % 6, name)));
        }
        match op % 6 {
            0 => {
                model[0].insert(lc);
            }
            1 => {
                model[1].insert(lc);
            }
            2 => {
                model[2].insert(lc);
            }
            3 => {
                removed_after_add |= model[0].remove(&lc);
            }
            4 => {
                removed_after_add |= model[1].remove(&lc);
            }
            _ => {
                removed_after_add |= model[2].remove(&lc);
            }
        }
        let got = [lower_set(real.always_present()), lower_set(real.if_in_request()), lower_set(real.prefixes())];
        for k in 0..3 {
            if got[k] != model[k] {
                return Err(Failure::new(
                    "vec-requirements-model-mismatch",
                    format!("after step {} ({} '{}') list {} is {:?}, model {:?}", step, op % 6, name, k, got[k], model[k]),
                ));
            }
        }
    }
    if oc.ops.len() >= 3 {
        cc.class_if(removed_after_add, "remove-after-add");
        cc.nontrivial(digest_of(&[format!("{:?}", oc.ops).as_bytes()]));
        cc.sample(json!({"ops": oc.ops.iter().map(|(o, s, p)| format!("{}:{}", ["add_always", "add_if", "add_prefix", "rm_always", "rm_if", "rm_prefix"][(*o % 6) as usize], spell_header_name(NAMES[pick_idx(*s, NAMES.len())], *p))).collect::<Vec<_>>()}));
    }
    Ok(())
}

#[derive(Clone, Debug, Serialize, Deserialize)]
pub struct BoundCase {
    pub plan: Plan,
    /// letter-case pattern per SignedHeaders entry (0 = lower case as the specification wants it)
    pub entry_case: Vec<u8>,
    /// sign the way a verifier that looks list entries up verbatim would expect (no header line for a mis-cased
    /// entry); otherwise the entry is matched case-insensitively
    pub verbatim: bool,
}

/// Metamorphic: whatever an implementation makes of an irregular SignedHeaders list, IF it accepts the request then
/// every header the service requires to be signed is covered by the signature -- editing its value (old signature
/// kept) must lead to refusal.
pub fn check_bound(bc: &BoundCase, cc: &mut CaseCtx) -> CheckResult {
    use crate::model::crypto::{hex_lower, hmac_sha256, key_chain, sha256};
    use crate::model::sign::{attach, PLACEHOLDER_SIG};
    let p = &bc.plan;
    let base = p.base();
    let mut spec = p.spec.clone();
    let mut respelled = false;
    for (i, e) in spec.signed_headers.iter_mut().enumerate() {
        let pat = bc.entry_case[i % bc.entry_case.len()];
        if pat != 0 && e != "host" {
            let n = spell_header_name(e, pat);
            respelled |= n != *e;
            *e = n;
        }
    }
    spec.keep_order = true;
    let mut list = spec.signed_headers.clone();
    list.sort();
    let Ok(scope) = crate::model::sign::default_scope(&p.cfg, &spec) else { return Ok(()) };
    let credential = format!("{}/{}/{}/{}/{}", spec.access_key, scope.0, scope.1, scope.2, scope.3);
    let probe = Case { req: attach(&base, &p.cfg, &spec, &credential, PLACEHOLDER_SIG), cfg: p.cfg.clone(), prov: p.provider() };
    let a = analyze(&probe);
    let (Some(path), Some(query), Some(t)) = (a.canonical_path.clone(), a.canonical_query.clone(), a.instant) else { return Ok(()) };
    let mut creq: Vec<u8> = Vec::new();
    creq.extend_from_slice(probe.req.method.as_bytes());
    creq.push(b'\n');
    creq.extend_from_slice(path.as_bytes());
    creq.push(b'\n');
    creq.extend_from_slice(query.as_bytes());
    creq.push(b'\n');
    for e in &list {
        let vals: Vec<Vec<u8>> = probe
            .req
            .headers
            .iter()
            .filter(|(n, _)| if bc.verbatim { n.to_ascii_lowercase() == *e } else { n.eq_ignore_ascii_case(e) })
            .map(|(_, v)| crate::model::canon::canonical_header_value(&v.0))
            .collect();
        if vals.is_empty() {
            continue;
        }
        creq.extend_from_slice(e.as_bytes());
        creq.push(b':');
        creq.extend_from_slice(&vals.join(&b','));
        creq.push(b'\n');
    }
    creq.push(b'\n');
    creq.extend_from_slice(list.join(";").as_bytes());
    creq.push(b'\n');
    creq.extend_from_slice(hex_lower(&sha256(&probe.req.body.0)).as_bytes());
    let sts = format!("AWS4-HMAC-SHA256\n{}\n{}/{}/{}/{}\n{}", t.compact(), scope.0, scope.1, scope.2, scope.3, hex_lower(&sha256(&creq)));
    let key = key_chain(spec.secret.as_bytes(), &scope.0, &scope.1, &scope.2)[3];
    let sig = hex_lower(&hmac_sha256(&key, sts.as_bytes()));
    let case = Case { req: attach(&base, &p.cfg, &spec, &credential, &sig), cfg: p.cfg.clone(), prov: p.provider() };
    let o = exec::run(&case);
    check_total(&o)?;
    cc.class_if(respelled, "mis-cased-list-entry");
    cc.class(if bc.verbatim { "signed-for-verbatim-lookup" } else { "signed-for-case-insensitive-lookup" });
    if !o.res.is_ok() {
        cc.class("not-accepted");
        return Ok(());
    }
    cc.class("accepted");
    // which headers does the service require to be signed for this request?
    let r = &p.cfg.reqs;
    let mut required: BTreeSet<String> = BTreeSet::new();
    for h in &r.always {
        required.insert(h.to_lowercase());
    }
    for h in &r.if_in_request {
        required.insert(h.to_lowercase());
    }
    for pf in &r.prefixes {
        let pl = pf.to_lowercase();
        for (n, _) in &case.req.headers {
            let nl = n.to_ascii_lowercase();
            if nl.starts_with(&pl) && nl != "authorization" {
                required.insert(nl);
            }
        }
    }
    required.insert("host".into());
    let mut checked = 0;
    for h in &required {
        let Some(i) = case.req.headers.iter().position(|(n, _)| n.eq_ignore_ascii_case(h)) else { continue };
        let mut edited = case.clone();
        edited.req.headers[i].1 .0.extend_from_slice(b"-edited");
        let o2 = exec::run(&edited);
        check_total(&o2)?;
        checked += 1;
        if o2.res.is_ok() {
            return Err(Failure::new(
                "required-header-not-bound",
                format!("request accepted with SignedHeaders={:?}; the service requires '{}' to be signed, yet changing its value (same signature) is still accepted", spec.signed_headers, h),
            ));
        }
    }
    if checked > 0 {
        cc.class("required-header-edit-refused");
        cc.nontrivial(digest_of(&[&case.req.digest().to_le_bytes(), format!("{:?}", r).as_bytes()]));
        cc.sample(json!({"requirements": r, "signed_list_as_sent": spec.signed_headers, "required_and_present": required.iter().collect::<Vec<_>>(), "edits_refused": checked}));
    }
    Ok(())
}
