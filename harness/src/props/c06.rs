//! C06 -- signing-key derivation equals the SigV4 HMAC chain for all inputs.

use super::common::*;
use crate::engine::*;
use crate::exec::panic_message;
use crate::model::crypto::*;
use crate::model::time::{civil_from_days, days_from_civil};
use chrono::NaiveDate;
use proptest::prelude::*;
use scratchstack_aws_signature::KSecretKey;
use serde::{Deserialize, Serialize};
use serde_json::json;
use std::str::FromStr;

pub const RULE: &str = "enumerated: every secret length 0..=60 in five alphabets (and lengths 61-130 and within 48 of 256, 512, 1024, 4096, 65536, plus 10^4, 10^5, 2^20) (ASCII, multi-byte UTF-8, NUL bytes, trailing CR LF, leading blank + trailing LF) x capacities M in {0,1,3,4,5,8,20,44,64,100} (construction succeeds iff len <= M-4, never for M<4, else KeyTooLongError; never panics), every calendar day of the years 1, 4, 999, 1000, 1900, 2000, 2024, 9999 (thorough) or their month ends and leap days (quick); generated: random secrets (<= 40 bytes), dates in years 1-9999, region/service strings incl. empty and non-ASCII. Consecutive derivations on one thread: after a derivation, one whose region/service boundary has moved (with or without a slash), whose components are exchanged, or in which one of secret/date/region/service differs; and all of it again while a logger renders records down to TRACE level. Oracle: as_ref() returns the secret put in; kDate/kRegion/kService/kSigning equal the model's own HMAC-SHA256 chain byte for byte; all ten shortcut paths agree with the step-by-step one. Non-trivial: secret length != 40, or non-ASCII secret, or year < 1000, or leap day, or empty/non-ASCII region or service; distinct by (secret, date, region, service).";

#[derive(Clone, Debug, Serialize, Deserialize)]
pub struct Derive {
    /// render log records at trace level while deriving
    #[serde(default)]
    pub trace: bool,
    pub secret: String,
    pub y: i32,
    pub m: u32,
    pub d: u32,
    pub region: String,
    pub service: String,
}

#[derive(Clone, Debug, Serialize, Deserialize)]
pub struct Cap {
    #[serde(default)]
    pub trace: bool,
    pub secret: String,
    pub capacity: usize,
}

fn text() -> BoxedStrategy<String> {
    prop_oneof![
        4 => "[a-z0-9-]{1,14}",
        1 => Just(String::new()),
        1 => "\\PC{0,10}",
        1 => "[ -~]{0,20}",
        1 => Just("eu-wést-1".to_string()),
        2 => crate::gen::region(),
        2 => crate::gen::service(),
    ]
    .boxed()
}

pub fn subs() -> Vec<Box<dyn AnySub>> {
    vec![
        Box::new(EnumSub { name: "capacity", exhaustive: true, list: cap_list, check: check_cap }),
        Box::new(EnumSub { name: "calendar", exhaustive: true, list: calendar_list, check: check_derive }),
        Box::new(Sub {
            name: "derive",
            quick: 50_000,
            thorough: 1_000_000,
            strat: || {
                (crate::gen::secret(), (1i64..=9999, 1u32..=12, 1u32..=31), text(), text())
                    .prop_map(|(secret, (y, m, d), region, service)| {
                        let d = d.min(crate::model::time::days_in_month(y, m));
                        Derive { trace: false, secret, y: y as i32, m, d, region, service }
                    })
                    .boxed()
            },
            check: check_derive,
        }),
        // consecutive derivations on one thread whose inputs differ only in where a boundary falls, or in one
        // component: a remembered previous result must never be handed out for different inputs
        Box::new(Sub {
            name: "consecutive-derivations",
            quick: 8_000,
            thorough: 150_000,
            strat: || {
                (crate::gen::secret(), (1i64..=9999, 1u32..=12, 1u32..=28), text(), text(), proptest::collection::vec((0u8..12, text(), any::<u16>()), 1..6))
                    .prop_map(|(secret, (y, m, d), region, service, steps)| DeriveSeq { first: Derive { trace: false, secret, y: y as i32, m, d, region, service }, steps })
                    .boxed()
            },
            check: check_derive_seq,
        }),
        // one and the same derivation over and over on one thread (a cache's counters, an eviction policy, a buffer that grows)
        Box::new(EnumSub {
            name: "same-derivation-many-times",
            exhaustive: true,
            list: |t| {
                let mut v = vec![255u32, 256, 257, 258, 1_000, 4_097];
                if t == Tier::Thorough {
                    v.extend([65_535, 65_536, 65_537, 100_000]);
                }
                v
            },
            check: |n, cc| {
                let d = Derive { trace: false, secret: "wJalrXUtnFEMI/K7MDENG+bPxRfiCYEXAMPLEKEY".into(), y: 2015, m: 8, d: 30, region: format!("us-east-{}", n % 7), service: "iam".into() };
                let mut scratch = CaseCtx::default();
                for i in 0..*n {
                    check_derive(&d, &mut scratch).map_err(|f| Failure::new(&format!("{}:repeated", f.sig), format!("{} -- at repetition {} of the same derivation on one thread", f.msg, i + 1)))?;
                    // now and then another scope in between
                    if i % 1009 == 1008 {
                        check_derive(&Derive { service: "s3".into(), ..d.clone() }, &mut scratch)?;
                    }
                }
                cc.class("repeated-derivation");
                cc.nontrivial(digest_of(&[&n.to_le_bytes()]));
                cc.sample(json!({"repetitions": n}));
                Ok(())
            },
        }),
        // N different scopes one after the other, then all of them again (forwards, backwards, interleaved): whatever a
        // bounded cache evicted must be derived afresh, not looked up where something else lives now
        Box::new(EnumSub {
            name: "many-scopes-then-back",
            exhaustive: true,
            list: |t| {
                let mut v = vec![3u32, 17, 31, 32, 33, 65, 129, 257];
                if t == Tier::Thorough {
                    v.extend([1_025, 4_097, 65_537]);
                }
                v
            },
            check: |n, cc| {
                let scope = |i: u32| Derive {
                    trace: false,
                    secret: format!("secret-{}", i % 3),
                    y: 2015,
                    m: 8,
                    d: 1 + i % 28,
                    region: crate::gen::REGIONS[i as usize % crate::gen::REGIONS.len()].to_string(),
                    service: format!("svc{}", i),
                };
                let mut scratch = CaseCtx::default();
                let order: Vec<u32> = (0..*n).chain(0..*n).chain((0..*n).rev()).chain((0..*n).map(|i| (i * 7) % *n)).collect();
                for (k, i) in order.iter().enumerate() {
                    check_derive(&scope(*i), &mut scratch).map_err(|f| Failure::new(&format!("{}:many-scopes", f.sig), format!("{} -- scope {} of {}, visit {} of a walk over all scopes and back", f.msg, i, n, k + 1)))?;
                }
                cc.class("many-scopes");
                cc.nontrivial(digest_of(&[&n.to_le_bytes(), b"scopes"]));
                cc.sample(json!({"scopes": n, "derivations": order.len()}));
                Ok(())
            },
        }),
        // the same operations while a logger renders every record down to trace level
        Box::new(EnumSub {
            name: "capacity-with-trace-logging",
            exhaustive: true,
            list: |t| cap_list(t).into_iter().map(|c| Cap { trace: true, ..c }).collect(),
            check: check_cap,
        }),
        Box::new(Sub {
            name: "derive-with-trace-logging",
            quick: 10_000,
            thorough: 200_000,
            strat: || {
                (crate::gen::secret(), (1i64..=9999, 1u32..=12, 1u32..=31), text(), text())
                    .prop_map(|(secret, (y, m, d), region, service)| {
                        let d = d.min(crate::model::time::days_in_month(y, m));
                        Derive { trace: true, secret, y: y as i32, m, d, region, service }
                    })
                    .boxed()
            },
            check: check_derive,
        }),
    ]
}

#[derive(Clone, Debug, Serialize, Deserialize)]
pub struct DeriveSeq {
    pub first: Derive,
    /// (kind, text, number) edits applied one after the other
    pub steps: Vec<(u8, String, u16)>,
}

fn split_at_char(s: &str, k: u16) -> (String, String) {
    let n = s.chars().count();
    let i = if n == 0 { 0 } else { crate::engine::pick_idx(k, n + 1) };
    (s.chars().take(i).collect(), s.chars().skip(i).collect())
}

pub fn check_derive_seq(sq: &DeriveSeq, cc: &mut CaseCtx) -> CheckResult {
    let mut cur = sq.first.clone();
    check_derive(&cur, &mut CaseCtx::default())?;
    let mut kinds = Vec::new();
    for (kind, text, k) in &sq.steps {
        let mut next = cur.clone();
        let name = match kind {
            // the joined text "region/service" stays the same, the boundary moves
            0 => {
                let (a, b) = split_at_char(&cur.service, *k);
                next.region = format!("{}/{}", cur.region, a);
                next.service = b;
                "slash-moves-right"
            }
            1 => {
                let (a, b) = split_at_char(&cur.region, *k);
                next.region = a;
                next.service = format!("{}/{}", b, cur.service);
                "slash-moves-left"
            }
            // the concatenation stays the same
            2 => {
                let (a, b) = split_at_char(&cur.service, *k);
                next.region = format!("{}{}", cur.region, a);
                next.service = b;
                "boundary-moves-right"
            }
            3 => {
                let (a, b) = split_at_char(&cur.region, *k);
                next.region = a;
                next.service = format!("{}{}", b, cur.service);
                "boundary-moves-left"
            }
            4 => {
                std::mem::swap(&mut next.region, &mut next.service);
                "exchanged"
            }
            5 => {
                next.region = text.clone();
                "other-region"
            }
            6 => {
                next.service = text.clone();
                "other-service"
            }
            7 => {
                // another day, same month and year / same day another year
                if k % 2 == 0 {
                    next.d = 1 + (cur.d + (*k as u32 / 2) % 27) % 28;
                } else {
                    next.y = 1 + (cur.y + (*k as i32 / 2) % 9998) % 9999;
                }
                "other-date"
            }
            8 => {
                // a secret of the same length differing in its last character, or sharing a prefix
                let mut sc: Vec<char> = cur.secret.chars().collect();
                match sc.last_mut() {
                    Some(c) if k % 2 == 0 => *c = if *c == 'x' { 'y' } else { 'x' },
                    _ => sc.push('x'),
                }
                next.secret = sc.into_iter().collect();
                if next.secret.len() > 40 {
                    next.secret = cur.secret.chars().skip(1).collect();
                }
                "other-secret"
            }
            9 => {
                // the secret's tail moves into ... nothing: a shorter secret (prefix of the previous one)
                next.secret = cur.secret.chars().take(cur.secret.chars().count() / 2).collect();
                "secret-prefix"
            }
            10 => {
                next.region = cur.region.to_uppercase();
                next.service = cur.service.to_uppercase();
                "upper-case"
            }
            _ => "repeat",
        };
        if next.region == cur.region && next.service == cur.service && next.secret == cur.secret && (next.y, next.m, next.d) == (cur.y, cur.m, cur.d) && *kind != 11 {
            continue;
        }
        kinds.push(name);
        cc.class(name);
        check_derive(&next, &mut CaseCtx::default()).map_err(|f| Failure::new(&format!("{}:after-{}", f.sig, name), format!("{} -- directly after deriving for secret {:?} date {:04}{:02}{:02} region {:?} service {:?}", f.msg, cur.secret, cur.y, cur.m, cur.d, cur.region, cur.service)))?;
        cur = next;
    }
    if !kinds.is_empty() {
        cc.nontrivial(digest_of(&[format!("{:?}", sq).as_bytes()]));
        cc.sample(json!({"first": format!("secret {:?} date {:04}{:02}{:02} region {:?} service {:?}", sq.first.secret, sq.first.y, sq.first.m, sq.first.d, sq.first.region, sq.first.service), "then": kinds}));
    }
    Ok(())
}

fn secrets_of_len(n: usize) -> Vec<String> {
    let mut v = vec!["k".repeat(n), "\0".repeat(n)];
    if n >= 2 {
        // line terminators / blanks at either end (secrets read from files)
        v.push(format!("{}\r\n", "k".repeat(n - 2)));
        v.push(format!(" {}\n", "k".repeat(n - 2)));
    }
    // multi-byte: fill with 2-byte chars, pad with 'a'
    let mut s = "é".repeat(n / 2);
    if n % 2 == 1 {
        s.push('a');
    }
    v.push(s);
    v
}

pub fn cap_list(_t: Tier) -> Vec<Cap> {
    let mut out = Vec::new();
    for n in 0..=60usize {
        for s in secrets_of_len(n) {
            for c in [0usize, 1, 3, 4, 5, 8, 20, 44, 64, 100] {
                out.push(Cap { trace: false, secret: s.clone(), capacity: c });
            }
        }
    }
    // far beyond any capacity: around the sizes at which a narrower length field would wrap (2^8, 2^9, 2^10, 2^12, 2^16)
    let around = |n: usize| (n.saturating_sub(48)..=n + 48).collect::<Vec<usize>>();
    let mut big: Vec<usize> = (61..=130).collect();
    for n in [256usize, 512, 1024, 4096, 65_536] {
        big.extend(around(n));
    }
    big.extend([300, 1000, 10_000, 100_000, 1 << 20]);
    for n in big {
        for c in [0usize, 4, 44, 100] {
            out.push(Cap { trace: false, secret: "k".repeat(n), capacity: c });
        }
        out.push(Cap { trace: false, secret: "é".repeat(n / 2), capacity: 44 });
    }
    out
}

fn try_cap<const M: usize>(s: &str) -> Result<bool, String> {
    match std::panic::catch_unwind(|| KSecretKey::<M>::from_str(s).is_ok()) {
        Ok(b) => Ok(b),
        Err(p) => Err(panic_message(p)),
    }
}

pub fn check_cap(c: &Cap, cc: &mut CaseCtx) -> CheckResult {
    if c.trace {
        crate::exec::enable_log_capture();
        return crate::exec::with_logs(|| check_cap(&Cap { trace: false, ..c.clone() }, cc)).0.map_err(|f| Failure::new(&format!("{}:trace-logging", f.sig), f.msg));
    }
    let s = c.secret.as_str();
    let got = match c.capacity {
        0 => try_cap::<0>(s),
        1 => try_cap::<1>(s),
        3 => try_cap::<3>(s),
        4 => try_cap::<4>(s),
        5 => try_cap::<5>(s),
        8 => try_cap::<8>(s),
        20 => try_cap::<20>(s),
        44 => try_cap::<44>(s),
        64 => try_cap::<64>(s),
        100 => try_cap::<100>(s),
        _ => return Ok(()),
    };
    let want = c.capacity >= 4 && s.len() <= c.capacity - 4;
    cc.class(if want { "fits" } else { "too-long" });
    cc.class_if(c.capacity < 4, "capacity<4");
    cc.nontrivial(digest_of(&[s.as_bytes(), &c.capacity.to_le_bytes()]));
    if s.len() + 4 == c.capacity || s.len() + 3 == c.capacity || c.capacity < 4 && s.is_empty() {
        cc.sample(json!({"secret_len": s.len(), "capacity": c.capacity, "expect_ok": want}));
    }
    match got {
        Err(m) => Err(Failure::new("panic:from_str", format!("KSecretKey::<{}>::from_str panicked on a {}-byte secret: {}", c.capacity, s.len(), m))),
        Ok(ok) if ok != want => Err(Failure::new(
            "from_str-capacity",
            format!("KSecretKey::<{}>::from_str on a {}-byte secret: ok={} expected ok={}", c.capacity, s.len(), ok, want),
        )),
        Ok(_) => Ok(()),
    }
}

fn calendar_list(t: Tier) -> Vec<Derive> {
    let mut out = Vec::new();
    for y in [1i64, 4, 999, 1000, 1900, 2000, 2024, 9999] {
        let start = days_from_civil(y, 1, 1);
        let end = days_from_civil(y, 12, 31);
        for z in start..=end {
            let (yy, m, d) = civil_from_days(z);
            let month_end = d == crate::model::time::days_in_month(yy, m) || d == 1;
            if t == Tier::Thorough || month_end {
                out.push(Derive { trace: false, secret: "wJalrXUtnFEMI/K7MDENG+bPxRfiCYEXAMPLEKEY".into(), y: yy as i32, m, d, region: "us-east-1".into(), service: "iam".into() });
            }
        }
    }
    out
}

pub fn check_derive(dv: &Derive, cc: &mut CaseCtx) -> CheckResult {
    if dv.trace {
        crate::exec::enable_log_capture();
        return crate::exec::with_logs(|| check_derive(&Derive { trace: false, ..dv.clone() }, cc)).0.map_err(|f| Failure::new(&format!("{}:trace-logging", f.sig), f.msg));
    }
    let Some(date) = NaiveDate::from_ymd_opt(dv.y, dv.m, dv.d) else { return Ok(()) };
    let date8 = format!("{:04}{:02}{:02}", dv.y, dv.m, dv.d);
    let want = key_chain(dv.secret.as_bytes(), &date8, &dv.region, &dv.service);
    let (region, service) = (dv.region.as_str(), dv.service.as_str());
    let r = std::panic::catch_unwind(|| {
        let ks = KSecretKey::<44>::from_str(&dv.secret).map_err(|_| "KeyTooLongError".to_string())?;
        let back: Vec<u8> = AsRef::<[u8]>::as_ref(&ks).to_vec();
        let kd = ks.to_kdate(date);
        let kr = kd.to_kregion(region);
        let kv = kr.to_kservice(service);
        let kg = kv.to_ksigning();
        let g = |k: &dyn AsRef<[u8; 32]>| *k.as_ref();
        let paths: Vec<(&'static str, usize, [u8; 32])> = vec![
            ("secret.to_kdate", 0, g(&kd)),
            ("kdate.to_kregion", 1, g(&kr)),
            ("kregion.to_kservice", 2, g(&kv)),
            ("kservice.to_ksigning", 3, g(&kg)),
            ("secret.to_kregion", 1, g(&ks.to_kregion(date, region))),
            ("secret.to_kservice", 2, g(&ks.to_kservice(date, region, service))),
            ("secret.to_ksigning", 3, g(&ks.to_ksigning(date, region, service))),
            ("kdate.to_kservice", 2, g(&kd.to_kservice(region, service))),
            ("kdate.to_ksigning", 3, g(&kd.to_ksigning(region, service))),
            ("kregion.to_ksigning", 3, g(&kr.to_ksigning(service))),
        ];
        Ok::<_, String>((back, paths))
    });
    let (back, paths) = match r {
        Err(p) => return Err(Failure::new("panic:derive", format!("derivation panicked: {}", panic_message(p)))),
        Ok(Err(e)) => {
            return if dv.secret.len() <= 40 {
                Err(Failure::new("from_str-rejected-fitting-secret", format!("a {}-byte secret was refused: {}", dv.secret.len(), e)))
            } else {
                Ok(())
            }
        }
        Ok(Ok(v)) => v,
    };
    if dv.secret.len() > 40 {
        return Err(Failure::new("from_str-accepted-oversize", format!("a {}-byte secret was accepted by the 44-byte key type", dv.secret.len())));
    }
    if back != dv.secret.as_bytes() {
        return Err(Failure::new("secret-roundtrip", format!("as_ref() returned {:?} for secret {:?}", String::from_utf8_lossy(&back), dv.secret)));
    }
    for (name, idx, got) in &paths {
        if *got != want[*idx] {
            return Err(Failure::new(
                &format!("derive-mismatch:{}", name),
                format!("{} = {} but HMAC chain gives {} (secret {:?} date {} region {:?} service {:?})", name, hex_lower(got), hex_lower(&want[*idx]), dv.secret, date8, dv.region, dv.service),
            ));
        }
    }
    let leap = dv.m == 2 && dv.d == 29;
    cc.class_if(dv.secret.len() != 40, "secret-len!=40");
    cc.class_if(!dv.secret.is_ascii(), "non-ascii-secret");
    cc.class_if(dv.y < 1000, "year<1000");
    cc.class_if(leap, "leap-day");
    cc.class_if(dv.region.is_empty() || dv.service.is_empty(), "empty-region-or-service");
    cc.class_if(!dv.region.is_ascii() || !dv.service.is_ascii(), "non-ascii-region-or-service");
    if dv.secret.len() != 40 || !dv.secret.is_ascii() || dv.y < 1000 || leap || dv.region.is_empty() || dv.service.is_empty() || !dv.region.is_ascii() || !dv.service.is_ascii() {
        cc.nontrivial(digest_of(&[dv.secret.as_bytes(), date8.as_bytes(), dv.region.as_bytes(), dv.service.as_bytes()]));
        cc.sample(json!({"secret": dv.secret, "date": date8, "region": dv.region, "service": dv.service, "ksigning": hex_lower(&want[3])}));
    }
    Ok(())
}
