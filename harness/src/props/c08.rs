//! C08 -- totality: no input makes any public operation panic.

use super::common::*;
use crate::engine::*;
use crate::exec;
use crate::gen::*;
use crate::model::time::Instant;
use crate::model::verify::Carrier;
use crate::types::*;
use proptest::prelude::*;
use scratchstack_aws_signature::auth::SigV4AuthenticatorBuilder;
use scratchstack_aws_signature::canonical::*;
use scratchstack_aws_signature::{GetSigningKeyRequest, GetSigningKeyResponse, KSecretKey, SignatureError};
use serde::{Deserialize, Serialize};
use serde_json::json;
use std::str::FromStr;

pub const RULE: &str = "generated: (a) arbitrary requests assembled from pieces -- any method token, request targets from path/query fragments (bad escapes, dot segments, '*', absolute form), arbitrary header names/values (all bytes the http crate admits), Authorization headers and X-Amz-* parameters from a grammar of near-valid and garbage forms, every content-type / charset label x arbitrary body bytes, all option and requirement combinations, server clocks over chrono's whole range; (b) LARGE requests: form bodies of 64-200 KiB folded into the query, request targets up to the http crate's 65534-byte limit, thousands of parameters and headers; (c) direct calls of every public operation with arbitrary arguments (path/query/header canonicalisers, normalize_*, trim_ascii*, latin1_to_string, KSecretKey::<M>::from_str and all derivations, builders with missing fields, prevalidate/validate_signature on builder-made authenticators with arbitrary credentials, extreme clocks and durations, error conversions, Display/Debug of every value). (d) reference-signed VALID requests (the success path, incl. absolute- and authority-form targets with folding); (e) the direct operations, capacity enumeration and timestamps again under a TRACE-level logger that renders every record. Oracle: no unwinding panic (caught at the harness boundary; overflow checks on), no hang; operations documented to panic on malformed escapes are only fed valid escapes. Non-trivial: the case got past request construction and belongs to an interesting class (folding with body > 32 KiB, known charset with non-UTF-8 bytes, extreme clock, >= 3 simultaneous oddities, direct call with non-ASCII / oversized argument); distinct by digest.";

pub const CHARSETS: &[&str] = &[
    "utf-8", "utf8", "UTF-8", "unicode-1-1-utf-8", "iso-8859-1", "latin1", "ascii", "us-ascii", "windows-1252", "iso-8859-2", "iso-8859-5", "iso-8859-15",
    "koi8-r", "koi8-u", "macintosh", "windows-1251", "windows-1250", "windows-874", "ibm866", "utf-16", "utf-16le", "utf-16be", "shift_jis", "sjis", "euc-jp",
    "iso-2022-jp", "gbk", "gb2312", "gb18030", "hz-gb-2312", "big5", "big5-hkscs", "euc-kr", "iso-2022-kr", "x-user-defined", "x-mac-cyrillic", "replacement",
    "klingon", "", " utf-8 ", "\"utf-8\"", "utf-8;", "UTF-16LE", "iso-8859-8-i", "windows-949", "unicode", "csunicode", "ucs-2",
    // degenerate quoting and punctuation
    "\"", "'", "\"\"", "\"\"\"", "\"x", "x\"", "\"utf-8", "utf-8\"", "'utf-8'", "\" \"", "=", ",", "*", "\\", "%", "%22", "(utf-8)", "utf-8 (comment)", "\"\\\"\"", "\u{e9}",
];

#[derive(Clone, Debug, Serialize, Deserialize)]
pub struct AnyCase {
    pub case: Case,
}

fn auth_value() -> BoxedStrategy<String> {
    let cred = prop_oneof![
        3 => Just("AKIDEXAMPLE/20150830/us-east-1/service/aws4_request".to_string()),
        1 => "[ -~]{0,30}",
        1 => "[A-Z]{0,5}(/[a-z0-9-]{0,9}){0,7}",
    ];
    let piece = prop_oneof![
        3 => cred.prop_map(|c| format!("Credential={}", c)),
        3 => "[a-z;-]{0,20}".prop_map(|c| format!("SignedHeaders={}", c)),
        1 => Just("SignedHeaders=host;x-amz-date".to_string()),
        3 => "[0-9a-f]{0,70}".prop_map(|c| format!("Signature={}", c)),
        1 => "[ -~]{0,12}",
        1 => Just("=".to_string()),
        1 => Just("".to_string()),
    ];
    (prop_oneof![5 => Just("AWS4-HMAC-SHA256".to_string()), 1 => Just("AWS4-HMAC-SHA256\t".to_string()), 1 => "[ -~]{0,20}", 1 => Just("".to_string())], proptest::collection::vec(piece, 0..6), prop_oneof![Just(", "), Just(","), Just(" "), Just(",,")])
        .prop_map(|(alg, ps, sep)| format!("{} {}", alg, ps.join(sep)))
        .boxed()
}

fn target() -> BoxedStrategy<String> {
    let frag = prop_oneof![
        6 => Just("/".to_string()),
        2 => Just("%".to_string()),
        1 => Just("%zz".to_string()),
        1 => Just("..".to_string()),
        1 => Just(".".to_string()),
        1 => Just("+".to_string()),
        8 => "[a-zA-Z0-9._~-]{1,5}",
        2 => "[!$&'()*,;=:@]{1,3}",
        2 => any::<u8>().prop_map(|b| format!("%{:02x}", b)),
    ];
    let qfrag = prop_oneof![
        5 => Just("&".to_string()),
        5 => Just("=".to_string()),
        1 => Just("%".to_string()),
        1 => Just("%4".to_string()),
        2 => Just("X-Amz-Algorithm=AWS4-HMAC-SHA256".to_string()),
        1 => Just("X-Amz-Algorithm".to_string()),
        2 => Just("X-Amz-Credential=AKID%2F20150830%2Fus-east-1%2Fservice%2Faws4_request".to_string()),
        1 => Just("X-Amz-Credential=%ff%fe".to_string()),
        2 => Just("X-Amz-Date=20150830T123600Z".to_string()),
        1 => Just("X-Amz-Date=%D9%A2%D9%A0%D9%A1%D9%A50830T123600Z".to_string()),
        1 => Just("X-Amz-Date=".to_string()),
        2 => Just("X-Amz-SignedHeaders=host".to_string()),
        1 => Just("X-Amz-SignedHeaders=%".to_string()),
        1 => Just("X-Amz-SignedHeaders=%zz".to_string()),
        1 => Just("X-Amz-SignedHeaders=%3B%3B".to_string()),
        2 => Just("X-Amz-Signature=abcdef".to_string()),
        1 => Just("X-Amz-Security-Token=%00%ff".to_string()),
        6 => "[a-zA-Z0-9._~+-]{1,5}",
        2 => any::<u8>().prop_map(|b| format!("%{:02X}", b)),
    ];
    (
        prop_oneof![10 => Just("".to_string()), 1 => Just("*".to_string()), 1 => Just("http://example.com".to_string()), 1 => Just("https://h:8443".to_string()), 1 => Just("example.com:443".to_string())],
        proptest::collection::vec(frag, 0..10),
        prop_oneof![2 => Just(None), 3 => proptest::collection::vec(qfrag, 0..12).prop_map(Some)],
    )
        .prop_map(|(lead, fr, q)| {
            if lead == "*" || lead == "example.com:443" {
                return lead;
            }
            let mut s = lead;
            let path = fr.concat();
            if !path.starts_with('/') {
                s.push('/');
            }
            s.push_str(&path);
            if let Some(q) = q {
                s.push('?');
                s.push_str(&q.concat());
            }
            s
        })
        .boxed()
}

fn wild_instant() -> BoxedStrategy<Instant> {
    prop_oneof![
        4 => instant(),
        1 => (-8_000_000_000_000i64..8_000_000_000_000, 0u32..1_000_000_000).prop_map(|(secs, nanos)| Instant { secs, nanos }),
        1 => Just(Instant { secs: -8_334_601_228_800, nanos: 0 }),
        1 => Just(Instant { secs: 8_210_266_876_799, nanos: 999_999_999 }),
        1 => Just(Instant { secs: 0, nanos: 0 }),
    ]
    .boxed()
}

fn header_name() -> BoxedStrategy<String> {
    prop_oneof![
        3 => any::<u16>().prop_map(|x| {
            const N: &[&str] = &["authorization", "x-amz-date", "date", "x-amz-security-token", "content-type", "host", ":authority", "x-amz-content-sha256", "etag", "x-amz-meta-x"];
            N[pick_idx(x, N.len())].to_string()
        }),
        2 => "[a-zA-Z0-9!#$%&'*+.^_`|~-]{1,12}",
    ]
    .boxed()
}

fn any_header_value() -> BoxedStrategy<Vec<u8>> {
    prop_oneof![
        3 => proptest::collection::vec(prop_oneof![8 => 0x20u8..=0x7e, 1 => Just(b'\t'), 2 => 0x80u8..=0xff], 0..40),
        2 => auth_value().prop_map(|s| s.into_bytes()),
        2 => (any::<u16>(), any::<u16>()).prop_map(|(a, b)| {
            let ct = ["application/x-www-form-urlencoded", "Application/X-WWW-Form-URLEncoded", "text/plain", "", ";", "application/x-www-form-urlencoded;"][pick_idx(a, 6)];
            format!("{}; charset={}", ct, CHARSETS[pick_idx(b, CHARSETS.len())]).into_bytes()
        }),
        1 => Just(b"application/x-www-form-urlencoded".to_vec()),
        1 => "[0-9TZ:+., -]{0,24}".prop_map(|s| s.into_bytes()),
        1 => Just(b"20150830T123600Z".to_vec()),
    ]
    .boxed()
}

pub fn any_case() -> BoxedStrategy<AnyCase> {
    (
        (method(), target(), prop_oneof![Just(11u8), Just(10), Just(2), Just(9), Just(3)]),
        proptest::collection::vec((header_name(), any_header_value()), 0..10),
        prop_oneof![2 => Just(vec![]), 3 => proptest::collection::vec(any::<u8>(), 0..200), 2 => "[a-z%+&=]{0,80}".prop_map(|s| s.into_bytes()), 1 => proptest::collection::vec(prop_oneof![Just("a=1"), Just("&"), Just("%"), Just("X-Amz-Algorithm=AWS4-HMAC-SHA256"), Just("é="), Just("=%00")], 0..30).prop_map(|v| v.concat().into_bytes())],
        (region(), service(), wild_instant(), any::<bool>(), any::<bool>(), reqs(true)),
        (crate::gen::secret(), access_key(), 0u8..6, 0u8..4, 0u8..15, (any::<u8>(), any::<u8>())),
    )
        .prop_map(|((method, uri, version), headers, body, (region, service, now, s3, fold, reqs), (secret, ak, rp, cp, ans, blank))| {
            let mut headers: Vec<(String, Vec<u8>)> = headers;
            if blank.0 % 4 == 0 {
                // an authentication header that occurs several times and is empty or blank every time
                let name = ["authorization", "x-amz-date", "date", "x-amz-security-token"][(blank.1 % 4) as usize];
                headers.retain(|(n, _)| !n.eq_ignore_ascii_case(name));
                for i in 0..(2 + blank.1 / 4 % 3) {
                    headers.push((name.to_string(), vec![b' '; ((blank.1 / 16 + i) % 3) as usize]));
                }
                if name != "authorization" && blank.0 % 8 == 0 {
                    headers.retain(|(n, _)| !n.eq_ignore_ascii_case("authorization"));
                    headers.insert(0, ("authorization".to_string(), format!("AWS4-HMAC-SHA256 Credential=AKIDEXAMPLE/20150830/us-east-1/service/aws4_request, SignedHeaders=host, Signature={}", "a".repeat(64)).into_bytes()));
                }
            }
            let req = WireRequest { method, uri, version, headers: headers.into_iter().map(|(n, v)| (n, B(v))).collect(), body: B(body) };
            let cfg = ServerConfig { region, service, now, s3, fold, reqs };
            let answer = match ans {
                0..=8 => Answer::Lookup,
                13 => Answer::Foreign("x".into()),
                k => Answer::SigErr(Kind::ALL[k as usize % 12], "e".into()),
            };
            let prov = ProviderScript {
                keys: vec![KeyEntry { access_key: ak, token: None, secret, derive_as: None, principal: PrincipalSpec::Empty, session: vec![] }],
                ready_pending: rp % 3,
                ready_err: None,
                call_pending: cp,
                answer,
            };
            AnyCase { case: Case { req, cfg, prov } }
        })
        .boxed()
}

#[derive(Clone, Debug, Serialize, Deserialize)]
pub struct LargeCase {
    pub kind: u8,
    pub size: u32,
    pub fill: u8,
    pub fold: bool,
    pub s3: bool,
    pub charset: u16,
    pub signed: bool,
}

pub fn subs() -> Vec<Box<dyn AnySub>> {
    vec![
        Box::new(Sub { name: "requests", quick: 60_000, thorough: 1_000_000, strat: any_case, check: check_any }),
        Box::new(Sub {
            name: "valid-then-broken",
            quick: 20_000,
            thorough: 300_000,
            strat: || (plan(PlanOpts { logical: LogicalOpts { body_class: 1, ..LogicalOpts::default() }, ..PlanOpts::default() }), super::c01::mutation()).prop_map(|(plan, mutation)| super::c01::Mutated { plan, mutation }).boxed(),
            check: check_mutated_total,
        }),
        // the success path (whatever runs after the signature has been verified) needs requests that verify
        Box::new(Sub {
            name: "valid",
            quick: 25_000,
            thorough: 400_000,
            strat: || plan(PlanOpts { logical: LogicalOpts { body_class: 1, ..LogicalOpts::default() }, ..PlanOpts::default() }),
            check: |p, cc| {
                let Ok(built) = p.build() else { return Ok(()) };
                let o = exec::run(&built.case);
                cc.class(if o.res.is_ok() { "accepted" } else { "not-accepted" });
                cc.class_if(o.res.is_ok() && !built.case.req.uri.starts_with('/'), "accepted-with-non-origin-form-target");
                cc.class_if(o.res.is_ok() && p.cfg.fold && p.form.is_some(), "accepted-folded-form");
                if o.res.is_ok() {
                    cc.nontrivial(digest_of(&[&built.case.req.digest().to_le_bytes(), b"valid"]));
                }
                check_total(&o)
            },
        }),
        Box::new(Sub {
            name: "large",
            quick: 160,
            thorough: 3000,
            strat: || {
                (0u8..6, prop_oneof![2 => 30_000u32..70_000, 2 => 64_000u32..67_000, 1 => 70_000u32..200_000], any::<u8>(), any::<bool>(), any::<bool>(), any::<u16>(), any::<bool>())
                    .prop_map(|(kind, size, fill, fold, s3, charset, signed)| LargeCase { kind, size, fill, fold, s3, charset, signed })
                    .boxed()
            },
            check: check_large,
        }),
        Box::new(EnumSub { name: "fold-uri-limit-sweep", exhaustive: true, list: limit_sweep, check: check_limit }),
        Box::new(EnumSub { name: "long-non-ascii-field-sweep", exhaustive: true, list: long_field_sweep, check: check_any }),
        Box::new(EnumSub { name: "header-count-sweep", exhaustive: true, list: header_count_list, check: check_header_count }),
        Box::new(EnumSub { name: "content-type-parameter-sweep", exhaustive: true, list: content_type_sweep, check: check_any }),
        Box::new(Sub { name: "direct", quick: 40_000, thorough: 600_000, strat: direct, check: check_direct }),
        Box::new(EnumSub {
            name: "timestamps",
            exhaustive: false,
            list: |t| {
                let mut v = super::c16::field_list(t);
                v.extend(super::c16::separator_list(t));
                v
            },
            check: check_ts_total,
        }),
        Box::new(Sub { name: "timestamps-mutated", quick: 10_000, thorough: 200_000, strat: super::c16::mutated, check: check_ts_total }),
        Box::new(Sub {
            name: "tower-future-service-provider",
            quick: 5_000,
            thorough: 60_000,
            strat: || plan(PlanOpts { plain_spelling: true, ..PlanOpts::default() }),
            check: check_future_service,
        }),
        Box::new(EnumSub { name: "secret-capacities", exhaustive: true, list: super::c06::cap_list, check: check_cap_total }),
        Box::new(EnumSub { name: "direct-bytes", exhaustive: true, list: |_| (0u16..256).map(|b| b as u8).collect(), check: check_byte }),
        // (last: once the capturing logger is installed, trace-level arguments are evaluated for the rest of the process)
        Box::new(Sub { name: "requests-with-trace-logging", quick: 20_000, thorough: 300_000, strat: any_case, check: check_any_logged }),
        Box::new(Sub {
            name: "valid-then-broken-with-trace-logging",
            quick: 10_000,
            thorough: 150_000,
            strat: || (plan(PlanOpts::default()), super::c01::mutation()).prop_map(|(plan, mutation)| super::c01::Mutated { plan, mutation }).boxed(),
            check: check_mutated_logged,
        }),
        Box::new(Sub { name: "direct-with-trace-logging", quick: 15_000, thorough: 200_000, strat: direct, check: |d, cc| logged(|| check_direct(d, cc)) }),
        Box::new(EnumSub { name: "secret-capacities-with-trace-logging", exhaustive: true, list: super::c06::cap_list, check: |c, cc| logged(|| check_cap_total(c, cc)) }),
        Box::new(Sub { name: "timestamps-mutated-with-trace-logging", quick: 5_000, thorough: 100_000, strat: super::c16::mutated, check: |t, cc| logged(|| check_ts_total(t, cc)) }),
    ]
}

/// Every client-controlled text that an error message, a log record or a lookup may echo, abbreviate or slice --
/// algorithm token, credential, signed-header list, signature, date (header and query), charset, media type, token,
/// a parameter without '=', the path -- filled with multi-byte characters (as UTF-8 bytes in headers, percent-encoded
/// in the target) at every byte alignment, with lengths at and around 2^6 ... 2^12.
pub fn long_field_sweep(t: Tier) -> Vec<AnyCase> {
    let mut out = Vec::new();
    let lens: Vec<usize> = [6u32, 7, 8, 9, 10, 12].iter().flat_map(|k| [(1usize << k) - 1, 1 << k, (1 << k) + 1]).collect();
    for field in 0..12u8 {
        for &len in &lens {
            if t == Tier::Quick && len > 1100 && field % 2 == 1 {
                continue;
            }
            for align in 0..4usize {
                for piece in ["\u{e9}", "\u{65e5}", "\u{1d11e}"] {
                    let mut text = "a".repeat(align);
                    while text.len() < len {
                        text.push_str(piece);
                    }
                    let enc = crate::model::canon::pct_encode(text.as_bytes());
                    let cred = "AKIDEXAMPLE/20150830/us-east-1/service/aws4_request";
                    let sig = "0".repeat(64);
                    let mut req = WireRequest { method: "POST".into(), uri: "/".into(), version: 11, headers: vec![("Host".into(), B::from("h.example")), ("X-Amz-Date".into(), B::from("20150830T123600Z"))], body: B::default() };
                    let auth = |alg: &str, c: &str, sh: &str, sg: &str| format!("{} Credential={}, SignedHeaders={}, Signature={}", alg, c, sh, sg);
                    let mut authorization = auth("AWS4-HMAC-SHA256", cred, "host;x-amz-date", &sig);
                    let mut fold = false;
                    match field {
                        0 => authorization = auth(&text, cred, "host;x-amz-date", &sig),
                        1 => authorization = auth("AWS4-HMAC-SHA256", &format!("{}/20150830/us-east-1/service/aws4_request", text), "host;x-amz-date", &sig),
                        2 => authorization = auth("AWS4-HMAC-SHA256", &format!("AKIDEXAMPLE/20150830/{}/service/aws4_request", text), "host;x-amz-date", &sig),
                        3 => authorization = auth("AWS4-HMAC-SHA256", cred, &format!("host;{};x-amz-date", text), &sig),
                        4 => authorization = auth("AWS4-HMAC-SHA256", cred, "host;x-amz-date", &text),
                        5 => req.headers[1].1 = B::from(text.as_str()),
                        6 => {
                            req.headers.push(("Content-Type".into(), B::from(format!("application/x-www-form-urlencoded; charset={}", text))));
                            fold = true;
                        }
                        7 => {
                            req.headers.push(("Content-Type".into(), B::from(format!("{}; charset=utf-8", text))));
                            fold = true;
                        }
                        8 => req.headers.push(("X-Amz-Security-Token".into(), B::from(text.as_str()))),
                        9 => authorization = format!("{}, {}", authorization, text),
                        10 => {
                            if enc.len() > 60_000 {
                                continue;
                            }
                            req.uri = format!("/../{}", enc);
                        }
                        _ => {
                            if enc.len() > 20_000 {
                                continue;
                            }
                            // query carrier: the date, the credential and a parameter without '='
                            req.uri = format!("/?X-Amz-Algorithm=AWS4-HMAC-SHA256&X-Amz-Credential={}&X-Amz-Date={}&X-Amz-SignedHeaders=host&X-Amz-Signature={}&{}", enc, enc, sig, enc);
                            authorization.clear();
                        }
                    }
                    if !authorization.is_empty() {
                        req.headers.push(("Authorization".into(), B::from(authorization.as_str())));
                    }
                    let cfg = ServerConfig { fold, ..ServerConfig::default() };
                    let prov = ProviderScript { keys: vec![KeyEntry { access_key: "AKIDEXAMPLE".into(), token: None, secret: "secret".into(), derive_as: None, principal: PrincipalSpec::Empty, session: vec![] }], ..ProviderScript::default() };
                    out.push(AnyCase { case: Case { req, cfg, prov } });
                }
            }
        }
    }
    out
}

#[derive(Clone, Debug, Serialize, Deserialize)]
pub struct HeaderCount {
    /// header lines (distinct names) of the final request
    pub total: usize,
    pub fold: bool,
    pub query_carrier: bool,
}

/// Numbers of distinct header names at which a hash table's capacity steps (3/4 of a power of two) and at the
/// powers of two themselves, one below and one above each; a folded form POST carrying Content-Length, so
/// that whatever rewrites, inserts or removes headers on the way does it in a table that is exactly full.
pub fn header_count_list(t: Tier) -> Vec<HeaderCount> {
    let mut sizes = Vec::new();
    for k in 3u32..=15 {
        for base in [1usize << k, 3 * (1usize << k) / 4] {
            for d in [-1i64, 0, 1] {
                sizes.push((base as i64 + d) as usize);
            }
        }
    }
    sizes.sort();
    sizes.dedup();
    let mut out = Vec::new();
    for total in sizes {
        if total < 6 || total > 32_768 || (t == Tier::Quick && total > 30_000) {
            continue;
        }
        for fold in [true, false] {
            out.push(HeaderCount { total, fold, query_carrier: total % 2 == 0 });
        }
    }
    out
}

pub fn check_header_count(h: &HeaderCount, cc: &mut CaseCtx) -> CheckResult {
    let mut plan = simple_plan(if h.query_carrier { Carrier::Query } else { Carrier::Header });
    plan.logical.method = "POST".into();
    plan.cfg.fold = h.fold;
    plan.form = Some(vec![(B::from("Action"), B::from("ListThings"))]);
    plan.logical.headers.push(("content-length".into(), vec![B::from("17")]));
    plan.spec.signed_headers.push("content-length".into());
    plan.spec.signed_headers.sort();
    // host, content-type, content-length (+ x-amz-date and authorization on the header carrier) are there already
    let fixed = if h.query_carrier { 3 } else { 5 };
    for i in 0..h.total.saturating_sub(fixed) {
        plan.logical.headers.push((format!("x-n{}", i), vec![B::from("v")]));
    }
    let Ok(built) = plan.build() else { return Ok(()) };
    let o = exec::run(&built.case);
    if let exec::Res::Unrepresentable(_) = o.res {
        cc.class("beyond-what-http-can-carry");
        return Ok(());
    }
    cc.class("header-count");
    cc.class_if(o.res.is_ok(), "accepted");
    cc.nontrivial(digest_of(&[&h.total.to_le_bytes(), &[h.fold as u8, h.query_carrier as u8]]));
    if h.total.is_power_of_two() && h.fold {
        cc.sample(json!({"header_lines": built.case.req.headers.len(), "fold": h.fold, "crate": o.res.short().chars().take(80).collect::<String>()}));
    }
    check_total(&o).map_err(|f| Failure::new(&f.sig, format!("{} header lines, folding {}: {}", built.case.req.headers.len(), h.fold, f.msg)))?;
    let a = crate::model::verify::analyze(&built.case);
    check_against_model(&a, &o).map_err(|f| Failure::new(&f.sig, format!("{} header lines, folding {}: {}", built.case.req.headers.len(), h.fold, f.msg.chars().take(200).collect::<String>())))
}

/// Every charset label of the list, every single visible ASCII character and every pair of punctuation characters
/// as the charset value (and as a whole parameter), after each media-type spelling, with the folding option on,
/// on reference-signed POSTs with an empty, a well-formed and an undecodable body.
pub fn content_type_sweep(_t: Tier) -> Vec<AnyCase> {
    let mut values: Vec<String> = CHARSETS.iter().map(|s| s.to_string()).collect();
    for c in 0x21u8..=0x7e {
        values.push((c as char).to_string());
    }
    const PUNCT: &[u8] = b"\"';=,*\\ %()<>/";
    for a in PUNCT {
        for b in PUNCT {
            values.push(format!("{}{}", *a as char, *b as char));
        }
    }
    let mut out = Vec::new();
    for v in &values {
        for ct in ["application/x-www-form-urlencoded; charset=", "application/x-www-form-urlencoded;charset=", "application/x-www-form-urlencoded; ", "application/x-www-form-urlencoded; boundary=x; charset=", "text/plain; charset="] {
            for body in [&b""[..], &b"a=1&b=%20"[..], &b"a=\xff\xfe"[..]] {
                let mut plan = simple_plan(Carrier::Header);
                plan.cfg.fold = true;
                plan.logical.method = "POST".into();
                let mut base = plan.base();
                let Ok(_) = http::header::HeaderValue::from_bytes(format!("{}{}", ct, v).as_bytes()) else { continue };
                base.headers.push(("Content-Type".into(), B::from(format!("{}{}", ct, v))));
                base.body = B(body.to_vec());
                let Ok(signed) = crate::model::sign::sign(&base, &plan.cfg, &plan.spec) else { continue };
                out.push(AnyCase { case: Case { req: signed.req, cfg: plan.cfg.clone(), prov: plan.provider() } });
            }
        }
    }
    out
}

pub fn check_any(ac: &AnyCase, cc: &mut CaseCtx) -> CheckResult {
    let o = exec::run(&ac.case);
    if let exec::Res::Unrepresentable(_) = o.res {
        cc.class("unrepresentable");
        return Ok(());
    }
    let c = &ac.case;
    let has = |n: &str| c.req.has_header(n);
    let mut odd = 0;
    let mut mark = |cond: bool, name: &'static str, cc: &mut CaseCtx| {
        if cond {
            cc.class(name);
            odd += 1;
        }
    };
    mark(has("authorization"), "has-authorization", cc);
    mark(c.req.uri.contains("X-Amz-Algorithm"), "has-query-auth", cc);
    mark(c.cfg.fold && has("content-type"), "fold+content-type", cc);
    mark(c.req.body.0.iter().any(|b| *b >= 0x80), "non-ascii-body", cc);
    mark(c.cfg.now.year() < 1 || c.cfg.now.year() > 9999, "extreme-clock", cc);
    mark(c.req.uri.contains('%'), "escapes-in-target", cc);
    mark(c.req.uri == "*" || c.req.uri.contains("://") || !c.req.uri.starts_with('/'), "non-origin-form-target", cc);
    cc.class(match &o.res {
        exec::Res::Ok(_) => "outcome-ok",
        exec::Res::Err(_) => "outcome-error",
        _ => "outcome-other",
    });
    if odd >= 2 {
        cc.nontrivial(digest_of(&[&c.req.digest().to_le_bytes(), format!("{:?}", c.cfg).as_bytes()]));
        cc.sample(case_sample(c, json!({"crate": o.res.short()})));
    }
    check_total(&o)?;
    if let exec::Res::Err(e) = &o.res {
        check_taxonomy(e)?;
    }
    Ok(())
}

pub fn check_mutated_total(mc: &super::c01::Mutated, cc: &mut CaseCtx) -> CheckResult {
    let Ok(built) = mc.plan.build() else { return Ok(()) };
    let Some(case) = super::c01::apply(&mc.mutation, &mc.plan, &built) else { return Ok(()) };
    let o = exec::run(&case);
    cc.class(super::c01::label(&mc.mutation));
    cc.nontrivial(digest_of(&[&case.req.digest().to_le_bytes(), b"mut"]));
    check_total(&o)
}

pub fn check_large(lc: &LargeCase, cc: &mut CaseCtx) -> CheckResult {
    let n = lc.size as usize;
    let mut plan = simple_plan(if lc.kind % 2 == 0 { Carrier::Header } else { Carrier::Query });
    plan.cfg.fold = lc.fold;
    plan.cfg.s3 = lc.s3;
    let mut base = plan.base();
    let label: &'static str;
    match lc.kind {
        0 | 1 => {
            // big form body: many small parameters
            let mut b = Vec::with_capacity(n + 16);
            let mut i = 0;
            while b.len() < n {
                b.extend_from_slice(format!("p{}={}&", i, (lc.fill as char).to_string().replace(|c: char| !c.is_ascii_alphanumeric(), "x")).as_bytes());
                i += 1;
            }
            base.body = B(b);
            let cs = CHARSETS[pick_idx(lc.charset, CHARSETS.len())];
            let ct = if lc.charset % 3 == 0 { "application/x-www-form-urlencoded".to_string() } else { format!("application/x-www-form-urlencoded; charset={}", cs) };
            base.headers.push(("Content-Type".into(), B::from(ct)));
            label = "large-form-body-many-params";
        }
        2 => {
            // one huge value, bytes that need escaping (3x growth when re-encoded)
            let mut b = b"v=".to_vec();
            b.extend(std::iter::repeat(if lc.fill % 2 == 0 { b'!' } else { b'a' }).take(n));
            base.body = B(b);
            base.headers.push(("Content-Type".into(), B::from("application/x-www-form-urlencoded")));
            label = "large-form-body-one-value";
        }
        3 => {
            // request target near the http crate's limit
            let n = n.min(65_400);
            let mut u = String::from("/");
            while u.len() < n {
                u.push_str("seg/");
            }
            u.truncate(n);
            base.uri = format!("{}?k=v", u);
            label = "large-target-path";
        }
        4 => {
            let n = n.min(65_400);
            let mut u = String::from("/p?");
            let mut i = 0;
            while u.len() < n {
                u.push_str(&format!("q{}=%2{}&", i, i % 10));
                i += 1;
            }
            u.truncate(n);
            if u.ends_with('%') {
                u.pop();
            }
            base.uri = u;
            label = "large-target-query";
        }
        _ => {
            let count = (n / 40).min(8000);
            for i in 0..count {
                base.headers.push((format!("x-h{}", i % 500), B::from(format!("value {}", i))));
            }
            base.body = B(vec![lc.fill; n]);
            label = "many-headers+large-body";
        }
    }
    let case = if lc.signed {
        match crate::model::sign::sign(&base, &plan.cfg, &plan.spec) {
            Ok(s) => Case { req: s.req, cfg: plan.cfg.clone(), prov: plan.provider() },
            Err(_) => Case { req: base, cfg: plan.cfg.clone(), prov: plan.provider() },
        }
    } else {
        Case { req: crate::model::sign::attach(&base, &plan.cfg, &plan.spec, "AKIDEXAMPLE/20150830/us-east-1/service/aws4_request", &"0".repeat(64)), cfg: plan.cfg.clone(), prov: plan.provider() }
    };
    let o = exec::run(&case);
    if let exec::Res::Unrepresentable(_) = o.res {
        cc.class("unrepresentable");
        return Ok(());
    }
    cc.class(label);
    cc.class_if(lc.fold && lc.kind <= 2 && n > 32_768, "fold-with-body>32K");
    cc.class_if(lc.fold && lc.kind <= 2 && n > 65_536, "fold-with-body>64K");
    cc.class(match &o.res {
        exec::Res::Ok(_) => "outcome-ok",
        exec::Res::Err(_) => "outcome-error",
        _ => "outcome-other",
    });
    cc.nontrivial(digest_of(&[format!("{:?}", lc).as_bytes()]));
    cc.sample(json!({"shape": label, "size": n, "fold": lc.fold, "s3": lc.s3, "signed": lc.signed, "target_len": case.req.uri.len(), "body_len": case.req.body.0.len(), "headers": case.req.headers.len(), "crate": o.res.short().chars().take(160).collect::<String>()}));
    check_total(&o)?;
    if let exec::Res::Err(e) = &o.res {
        check_taxonomy(e)?;
    }
    Ok(())
}

#[derive(Clone, Debug, Serialize, Deserialize)]
pub struct DirectCase {
    pub op: u8,
    pub s: String,
    pub t: String,
    pub bytes: B,
    pub n: i64,
    pub flag: bool,
}

fn direct() -> BoxedStrategy<DirectCase> {
    let text = prop_oneof![
        3 => "\\PC{0,24}",
        3 => "[ -~]{0,40}",
        2 => proptest::collection::vec(prop_oneof![Just("%"), Just("%4"), Just("%zz"), Just("/"), Just(".."), Just("+"), Just("&"), Just("="), Just("a"), Just("%41"), Just("é"), Just("\u{0}")], 0..16).prop_map(|v| v.concat()),
        1 => "[a-z/]{0,3000}",
    ];
    (0u8..14, text.clone(), text, proptest::collection::vec(any::<u8>(), 0..60), any::<i64>(), any::<bool>())
        .prop_map(|(op, s, t, bytes, n, flag)| DirectCase { op, s, t, bytes: B(bytes), n, flag })
        .boxed()
}

fn valid_escapes(s: &str) -> bool {
    let b = s.as_bytes();
    let mut i = 0;
    while i < b.len() {
        if b[i] == b'%' {
            if i + 2 >= b.len() {
                return false;
            }
            if !(b[i + 1].is_ascii_hexdigit() && b[i + 2].is_ascii_hexdigit()) {
                return false;
            }
            i += 3;
        } else {
            i += 1;
        }
    }
    true
}

pub fn check_direct(d: &DirectCase, cc: &mut CaseCtx) -> CheckResult {
    let name: &'static str = match d.op {
        0 => "canonicalize_uri_path",
        1 => "query_string_to_normalized_map+canonicalize_query_to_string",
        2 => "normalize_query_string_element/normalize_uri_path_component",
        3 => "normalize_header_value/trim_ascii*/latin1_to_string",
        4 => "normalize_headers",
        5 => "unescape_uri_encoding(valid escapes only)",
        6 => "KSecretKey::from_str + derivations",
        7 => "builders with missing fields",
        8 => "prevalidate with arbitrary credential / clock / duration",
        9 => "validate_signature on a builder-made authenticator",
        10 => "error values: Display/Debug/source/conversion",
        11 => "VecSignedHeaderRequirements ops with arbitrary names",
        12 => "GetSigningKeyRequest builder with arbitrary strings",
        _ => "SigV4AuthenticatorResponse builder / Debug",
    };
    let r = std::panic::catch_unwind(std::panic::AssertUnwindSafe(|| -> String {
        match d.op {
            0 => format!("{:?}", canonicalize_uri_path(&d.s, d.flag).map_err(|e| e.to_string())),
            1 => match query_string_to_normalized_map(&d.s) {
                Ok(m) => canonicalize_query_to_string(&m),
                Err(e) => format!("{} {:?}", e, e),
            },
            2 => format!("{:?} {:?}", normalize_query_string_element(&d.s).map_err(|e| e.to_string()), normalize_uri_path_component(&d.t).map_err(|e| e.to_string())),
            3 => {
                let v = normalize_header_value(&d.bytes.0);
                let t = trim_ascii(&d.bytes.0).len() + trim_ascii_start(&d.bytes.0).len() + trim_ascii_end(&d.bytes.0).len();
                format!("{} {} {}", v.len(), t, latin1_to_string(&d.bytes.0).len())
            }
            4 => {
                let mut hm = http::HeaderMap::new();
                if let Ok(v) = http::HeaderValue::from_bytes(&d.bytes.0) {
                    hm.append("x-a", v.clone());
                    hm.append("X-A", v.clone());
                    hm.append("content-type", v);
                }
                format!("{}", normalize_headers(&hm).len())
            }
            5 => {
                if valid_escapes(&d.s) {
                    unescape_uri_encoding(&d.s)
                } else {
                    "skipped: documented to panic on malformed escapes".into()
                }
            }
            6 => match KSecretKey::<44>::from_str(&d.s) {
                Ok(k) => {
                    let y = (d.n.rem_euclid(9999) + 1) as i32;
                    let date = chrono::NaiveDate::from_ymd_opt(y, (d.n.rem_euclid(12) + 1) as u32, (d.n.rem_euclid(28) + 1) as u32).unwrap();
                    let g = k.to_ksigning(date, &d.t, &d.s);
                    format!("{:?} {} {:?}", k, g, k.to_kdate(date).to_kregion(&d.t).to_kservice(&d.s))
                }
                Err(e) => format!("{} {:?}", e, e),
            },
            7 => {
                let a = GetSigningKeyRequest::builder().build().map(|_| ()).map_err(|e| e.to_string());
                let b = GetSigningKeyResponse::builder().build().map(|_| ()).map_err(|e| e.to_string());
                let c = SigV4AuthenticatorBuilder::default().build().map(|_| ()).map_err(|e| e.to_string());
                let mut pb = SigV4AuthenticatorBuilder::default();
                pb.credential(d.s.clone());
                let e = pb.build().map(|_| ()).map_err(|e| e.to_string());
                format!("{:?}{:?}{:?}{:?} {:?} {:?} {:?}", a, b, c, e, pb.get_credential(), pb.get_signature(), pb.get_session_token())
            }
            8 | 9 => {
                let ts = chrono::DateTime::<chrono::Utc>::from_timestamp(d.n.rem_euclid(16_000_000_000_000) - 8_000_000_000_000, 0).unwrap_or_default();
                let now = if d.flag { ts } else { chrono::DateTime::<chrono::Utc>::from_timestamp((d.n / 7).rem_euclid(16_000_000_000_000) - 8_000_000_000_000, 5).unwrap_or_default() };
                let dur = match d.n.rem_euclid(5) {
                    0 => chrono::Duration::minutes(15),
                    1 => chrono::Duration::MAX,
                    2 => chrono::Duration::MIN,
                    3 => chrono::Duration::zero(),
                    _ => chrono::Duration::try_seconds(d.n % 1_000_000_000).unwrap_or_else(chrono::Duration::zero),
                };
                let mut b = SigV4AuthenticatorBuilder::default();
                b.credential(d.s.clone()).signature(d.t.clone()).request_timestamp(ts).canonical_request_sha256([7u8; 32]);
                if d.flag {
                    b.session_token(d.t.clone());
                }
                let auth = b.build().expect("all fields set");
                if d.op == 8 {
                    let r = auth.prevalidate(&d.t, &d.s, now, dur);
                    format!("{:?} {:?}", r.map_err(|e| e.to_string()), auth)
                } else {
                    let mut prov = exec::Prov::new(ProviderScript {
                        keys: vec![KeyEntry { access_key: d.s.split('/').next().unwrap_or("").to_string(), token: if d.flag { Some(d.t.clone()) } else { None }, secret: "s".into(), derive_as: None, principal: PrincipalSpec::Empty, session: vec![] }],
                        ..ProviderScript::default()
                    });
                    let (r, _) = exec::block_on(auth.validate_signature(&d.t, &d.s, now, dur, &mut prov), 1000);
                    format!("{:?}", r.map(|x| x.map(|_| ()).map_err(|e| e.to_string())))
                }
            }
            10 => {
                let mut out = String::new();
                for k in Kind::ALL {
                    let e = exec::make_sig_err(k, &d.s);
                    out.push_str(&format!("{} {:?} {:?}", e, e, std::error::Error::source(&e).map(|s| s.to_string())));
                    let boxed: Box<dyn std::error::Error + Send + Sync> = Box::new(e);
                    let back = SignatureError::from(boxed);
                    out.push_str(&back.to_string());
                }
                let io: SignatureError = std::io::Error::new(std::io::ErrorKind::Other, d.t.clone()).into();
                out.push_str(&io.to_string());
                out
            }
            11 => {
                let mut v = scratchstack_aws_signature::VecSignedHeaderRequirements::new(&[d.s.as_str()], &[d.t.as_str()], &[d.s.as_str()]);
                v.add_always_present(&d.t);
                v.add_if_in_request(&d.s);
                v.add_prefix(&d.t);
                v.remove_always_present(&d.s);
                v.remove_if_in_request(&d.t);
                v.remove_prefix(&d.s);
                format!("{:?}", v)
            }
            12 => {
                let r = GetSigningKeyRequest::builder().access_key(d.s.clone()).session_token(Some(d.t.clone())).request_date(chrono::NaiveDate::MIN).region(d.t.clone()).service(d.s.clone()).build();
                format!("{:?}", r.map_err(|e| e.to_string()))
            }
            _ => {
                let r = scratchstack_aws_signature::auth::SigV4AuthenticatorResponse::builder().build();
                format!("{:?}", r.map_err(|e| e.to_string()))
            }
        }
    }));
    cc.class(name);
    if !d.s.is_ascii() || !d.t.is_ascii() || d.s.len() > 100 || d.s.contains('%') || d.bytes.0.iter().any(|b| *b >= 0x80) {
        cc.nontrivial(digest_of(&[&[d.op], d.s.as_bytes(), d.t.as_bytes(), &d.bytes.0, &d.n.to_le_bytes()]));
        cc.sample(json!({"operation": name, "s": d.s.chars().take(60).collect::<String>(), "t": d.t.chars().take(60).collect::<String>(), "n": d.n, "flag": d.flag}));
    }
    match r {
        Ok(_) => Ok(()),
        Err(p) => {
            let loc = exec::take_panic_location().unwrap_or_default();
            Err(Failure::new(&format!("panic:{}", loc), format!("{} panicked: {} @ {}", name, exec::panic_message(p), loc)))
        }
    }
}

pub fn check_byte(b: &u8, cc: &mut CaseCtx) -> CheckResult {
    let r = std::panic::catch_unwind(|| {
        let h = u8_to_upper_hex(*b);
        let u = is_rfc3986_unreserved(*b);
        (h, u)
    });
    cc.class("u8_to_upper_hex/is_rfc3986_unreserved");
    cc.nontrivial(*b as u64 + 1);
    match r {
        Ok((h, u)) => {
            let want = format!("{:02X}", b);
            if h != want.as_bytes() || u != crate::model::canon::is_unreserved(*b) {
                return Err(Failure::new("byte-helper-mismatch", format!("byte {:#x}: hex {:?} unreserved {}", b, h, u)));
            }
            Ok(())
        }
        Err(p) => Err(Failure::new("panic:byte-helper", exec::panic_message(p))),
    }
}

/// KSecretKey::<M>::from_str never panics, for any capacity (the Ok/Err boundary itself is C06's business).
pub fn check_cap_total(c: &super::c06::Cap, cc: &mut CaseCtx) -> CheckResult {
    let mut inner = CaseCtx::default();
    match super::c06::check_cap(c, &mut inner) {
        Err(f) if f.sig.starts_with("panic") => Err(f),
        _ => {
            cc.class("from_str-capacity");
            cc.class_if(c.capacity < 4, "capacity<4");
            cc.nontrivial(digest_of(&[c.secret.as_bytes(), &c.capacity.to_le_bytes()]));
            Ok(())
        }
    }
}

/// Timestamp strings (both carriers): whatever the verdict, parsing them must not panic.
pub fn check_ts_total(tc: &super::c16::TsCase, cc: &mut CaseCtx) -> CheckResult {
    let mut inner = CaseCtx::default();
    match super::c16::check_ts(tc, &mut inner) {
        Err(f) if f.sig.starts_with("panic") => Err(f),
        _ => {
            cc.class("timestamp-string");
            cc.class_if(!tc.text.is_ascii(), "non-ascii-timestamp");
            cc.nontrivial(digest_of(&[tc.text.as_bytes(), &[tc.query_carrier as u8], b"ts"]));
            Ok(())
        }
    }
}

/// A stock tower provider that insists on the Service contract (FutureService panics when `call` comes
/// before `poll_ready`): validation must not make it panic.
pub fn check_future_service(p: &Plan, cc: &mut CaseCtx) -> CheckResult {
    use scratchstack_aws_signature::{sigv4_validate_request, GetSigningKeyRequest, GetSigningKeyResponse, SignatureOptions, NO_ADDITIONAL_SIGNED_HEADERS};
    let Ok(built) = p.build() else { return Ok(()) };
    let mut case = built.case.clone();
    case.cfg.reqs = Reqs::default();
    let Ok(http_req) = exec::build_http(&case.req) else { return Ok(()) };
    let Some(now) = exec::to_datetime(case.cfg.now) else { return Ok(()) };
    let secret = p.entry.secret.clone();
    let lookup = move |req: GetSigningKeyRequest| {
        let secret = secret.clone();
        async move {
            let k = KSecretKey::<44>::from_str(&secret).map_err(|_| Box::new(exec::ForeignError("secret".into())) as tower::BoxError)?;
            GetSigningKeyResponse::builder().signing_key(k.to_ksigning(req.request_date(), req.region(), req.service())).build().map_err(|e| Box::new(exec::ForeignError(e.to_string())) as tower::BoxError)
        }
    };
    let inner = tower::service_fn(lookup);
    let mut svc = tower::util::future_service(Box::pin(async move { Ok::<_, tower::BoxError>(inner) }));
    let opts = SignatureOptions { s3: case.cfg.s3, url_encode_form: case.cfg.fold };
    let r = std::panic::catch_unwind(std::panic::AssertUnwindSafe(|| {
        exec::block_on(sigv4_validate_request(http_req, &case.cfg.region, &case.cfg.service, &mut svc, now, &NO_ADDITIONAL_SIGNED_HEADERS, opts), 10_000)
    }));
    cc.class("future-service");
    cc.nontrivial(digest_of(&[&case.req.digest().to_le_bytes(), b"fs"]));
    match r {
        Err(pn) => {
            let loc = exec::take_panic_location().unwrap_or_default();
            Err(Failure::new(&format!("panic:{}", loc), format!("validation with a tower FutureService provider panicked: {} @ {}", exec::panic_message(pn), loc)))
        }
        Ok((None, _)) => Err(Failure::new("hang", "validation did not complete")),
        Ok(_) => Ok(()),
    }
}

#[derive(Clone, Debug, Serialize, Deserialize)]
pub struct LimitCase {
    /// length of the merged path-and-query after folding
    pub total: usize,
    /// reach it with characters that triple when re-encoded
    pub tripling: bool,
    pub path_len: usize,
}

/// Every merged length around the http crate's URI cap (65534), reached in several ways.
fn limit_sweep(_t: Tier) -> Vec<LimitCase> {
    let mut out = Vec::new();
    for total in 65_480..=65_600usize {
        for tripling in [false, true] {
            for path_len in [1usize, 40] {
                out.push(LimitCase { total, tripling, path_len });
            }
        }
    }
    out
}

pub fn check_limit(lc: &LimitCase, cc: &mut CaseCtx) -> CheckResult {
    // path "/" or "/ppp...": path_len bytes; query "k=v&z=" + filler
    let path = format!("/{}", "p".repeat(lc.path_len - 1));
    let fixed = path.len() + 1 + "k=v&z=".len();
    if lc.total <= fixed {
        return Ok(());
    }
    let want = lc.total - fixed;
    let (filler, canon_len) = if lc.tripling { ("*".repeat(want / 3), want / 3 * 3) } else { ("a".repeat(want), want) };
    let pad = "b".repeat(want - canon_len);
    let body = format!("z={}{}", filler, pad);
    let req = WireRequest {
        method: "POST".into(),
        uri: format!("{}?k=v", path),
        version: 11,
        headers: vec![("Host".into(), B::from("h.example")), ("Content-Type".into(), B::from("application/x-www-form-urlencoded"))],
        body: B(body.into_bytes()),
    };
    let case = Case { req, cfg: ServerConfig { fold: true, ..ServerConfig::default() }, prov: ProviderScript::default() };
    let a = crate::model::verify::analyze(&case);
    let merged = a.canonical_path.as_ref().map(|p| p.len()).unwrap_or(0) + 1 + a.canonical_query.as_ref().map(|q| q.len()).unwrap_or(0);
    if merged != lc.total {
        return Err(harness_bug(format!("limit sweep built a merged length of {} instead of {}", merged, lc.total)));
    }
    let o = exec::run(&case);
    cc.class(if lc.total <= 65_534 { "fits" } else { "over-the-limit" });
    cc.nontrivial(digest_of(&[format!("{:?}", lc).as_bytes()]));
    if (65_533..=65_536).contains(&lc.total) {
        cc.sample(json!({"merged_length": lc.total, "tripling": lc.tripling, "path_len": lc.path_len, "crate": o.res.short().chars().take(120).collect::<String>()}));
    }
    check_total(&o)?;
    if let exec::Res::Err(e) = &o.res {
        check_taxonomy(e)?;
    }
    Ok(())
}

/// The same arbitrary requests with a TRACE-level logger that renders every record: the formatting code behind
/// `trace!` / `debug!` (Debug impls of internal values) runs on hostile input too.
/// run a check while a logger renders every record down to trace level
fn logged(f: impl FnOnce() -> CheckResult) -> CheckResult {
    exec::enable_log_capture();
    exec::with_logs(f).0.map_err(|f| Failure::new(&format!("{}:trace-logging", f.sig), f.msg))
}

pub fn check_any_logged(ac: &AnyCase, cc: &mut CaseCtx) -> CheckResult {
    exec::enable_log_capture();
    let (r, logs) = exec::with_logs(|| check_any(ac, cc));
    cc.class_if(!logs.is_empty(), "records-rendered");
    r
}

pub fn check_mutated_logged(mc: &super::c01::Mutated, cc: &mut CaseCtx) -> CheckResult {
    exec::enable_log_capture();
    let (r, logs) = exec::with_logs(|| check_mutated_total(mc, cc));
    cc.class_if(!logs.is_empty(), "records-rendered");
    r
}
