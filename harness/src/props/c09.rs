//! C09 -- path canonicalisation is a normal form faithful to the decoded path.

use super::common::*;
use crate::engine::*;
use crate::exec;
use crate::gen::*;
use crate::model::canon::*;
use crate::model::sign::{sign, SignSpec};
use crate::model::verify::*;
use crate::types::*;
use proptest::prelude::*;
use scratchstack_aws_signature::canonical::canonicalize_uri_path;
use serde::{Deserialize, Serialize};
use serde_json::json;

pub const RULE: &str = "enumerated completely: every byte 0-255 in every spelling (literal, %HH, %hh, %Hh, %hH) in three segment contexts, both modes; every two-character escape %xy over all 128x128 ASCII pairs at segment end and mid-segment plus the truncated forms; every path of 0-4 (quick) / 0-5 (thorough) segments over the alphabet {'', '.', '..', '%2e', '%2E%2e', '.%2E', 'a', '%41', 'a%2Fb', '~-_.', '*', '%zz'} with and without trailing slash, both modes. generated: random paths over all bytes / Unicode / deep '..' chains, and pairs of spellings of one decoded path. Oracle: crate output == reference normal form, or both fail with InvalidURIPath/400 (failure sets must coincide exactly); idempotence c(c(p)) = c(p); two spellings of one decoded path agree; output alphabet is unreserved + '/' + upper-case %HH; a sample is confirmed end to end (reference-signed request with that path is accepted / refused as the model says), also under every combination of {folding option, form POST with or without body, query carrier}: the canonical path may depend on (path, mode) only. Only '/a/.'-style trailing dot segments are left unspecified (RFC 3986 vs SDK trailing slash). Non-trivial: path has an escape, a dot segment (any spelling), an empty segment, a byte outside the unreserved set, or is invalid; distinct by (path, mode).";

#[derive(Clone, Debug, Serialize, Deserialize, PartialEq, Eq)]
pub struct PathCase {
    pub path: String,
    pub s3: bool,
}

#[derive(Clone, Debug, Serialize, Deserialize)]
pub struct Shaped {
    pub pc: PathCase,
    /// bit 0: the server folds form bodies; bit 1: the request is a form POST; bit 2: query carrier; bit 3: the form body is empty;
    /// bits 4-5: a query string follows the path (1: plain, 2: with further '?' and '/' in it, 3: just '?')
    pub shape: u8,
}

#[derive(Clone, Debug, Serialize, Deserialize)]
pub struct SpellPair {
    pub segments: Vec<B>,
    pub trailing: bool,
    pub s3: bool,
    pub a: Vec<u8>,
    pub b: Vec<u8>,
}

pub fn subs() -> Vec<Box<dyn AnySub>> {
    vec![
        Box::new(EnumSub { name: "every-byte", exhaustive: true, list: byte_list, check: check_path }),
        Box::new(EnumSub { name: "every-escape", exhaustive: true, list: escape_list, check: check_path }),
        Box::new(EnumSub { name: "segment-alphabet", exhaustive: true, list: alphabet_list, check: check_path }),
        Box::new(Sub { name: "random-paths", quick: 60_000, thorough: 2_000_000, strat: random_path, check: check_path }),
        Box::new(Sub {
            name: "respell",
            quick: 30_000,
            thorough: 500_000,
            strat: || {
                (proptest::collection::vec(prop_oneof![6 => segment(), 1 => Just(vec![]), 1 => Just(b".".to_vec()), 1 => Just(b"..".to_vec())], 0..6), any::<bool>(), any::<bool>(), proptest::collection::vec(any::<u8>(), 1..10), proptest::collection::vec(any::<u8>(), 1..10))
                    .prop_map(|(segs, trailing, s3, a, b)| SpellPair { segments: segs.into_iter().map(B).collect(), trailing, s3, a, b })
                    .boxed()
            },
            check: check_respell,
        }),
        Box::new(EnumSub { name: "long-paths", exhaustive: true, list: long_path_list, check: check_long_path }),
        Box::new(Sub { name: "e2e", quick: 15_000, thorough: 200_000, strat: random_path, check: check_e2e }),
        // the same paths under every option combination and request shape: the canonical path is a function of (path, mode) only
        Box::new(Sub {
            name: "e2e-all-options-and-shapes",
            quick: 15_000,
            thorough: 200_000,
            strat: || (random_path(), 0u8..64).prop_map(|(pc, shape)| Shaped { pc, shape }).boxed(),
            check: |sc, cc| check_e2e_shape(&sc.pc, sc.shape, cc),
        }),
    ]
}

fn random_path() -> BoxedStrategy<PathCase> {
    let piece = prop_oneof![
        8 => Just("/".to_string()),
        3 => Just(".".to_string()),
        2 => Just("..".to_string()),
        2 => Just("%2e".to_string()),
        2 => Just("%2E".to_string()),
        1 => Just("%252E".to_string()),
        1 => Just("%25".to_string()),
        1 => Just("%2f".to_string()),
        1 => Just("%2F".to_string()),
        1 => Just("%".to_string()),
        1 => Just("+".to_string()),
        1 => Just("%zz".to_string()),
        10 => "[a-zA-Z0-9._~-]{1,4}",
        3 => "[ -~]{1,3}",
        2 => any::<u8>().prop_map(|b| format!("%{:02X}", b)),
        2 => any::<u8>().prop_map(|b| format!("%{:02x}", b)),
        1 => "\\PC{1,2}",
        1 => Just("//".to_string()),
        1 => Just("/../".to_string()),
        1 => Just("/./".to_string()),
    ];
    (prop_oneof![12 => Just("/".to_string()), 1 => Just(String::new()), 1 => Just("a".to_string()), 1 => Just("*".to_string()), 1 => Just("..".to_string()), 1 => Just("%2F".to_string())], proptest::collection::vec(piece, 0..14), any::<bool>())
        .prop_map(|(lead, pieces, s3)| PathCase { path: format!("{}{}", lead, pieces.concat()), s3 })
        .boxed()
}

fn byte_list(_t: Tier) -> Vec<PathCase> {
    let mut out = Vec::new();
    for b in 0u16..256 {
        let b = b as u8;
        let mut spellings = vec![format!("%{:02X}", b), format!("%{:02x}", b)];
        let up = format!("{:02X}", b);
        let lo = format!("{:02x}", b);
        spellings.push(format!("%{}{}", &up[0..1], &lo[1..2]));
        spellings.push(format!("%{}{}", &lo[0..1], &up[1..2]));
        if b < 0x80 {
            spellings.push((b as char).to_string());
        } else {
            // the Latin-1 character of that code (two UTF-8 bytes): a literal non-ASCII character
            spellings.push((b as char).to_string());
        }
        for sp in spellings {
            for ctx in ["/{}", "/a{}b", "/a/{}/b"] {
                for s3 in [false, true] {
                    out.push(PathCase { path: ctx.replace("{}", &sp), s3 });
                }
            }
        }
    }
    out
}

fn escape_list(_t: Tier) -> Vec<PathCase> {
    let mut out = Vec::new();
    for x in 0u8..128 {
        for y in 0u8..128 {
            for s3 in [false, true] {
                out.push(PathCase { path: format!("/a%{}{}", x as char, y as char), s3 });
                out.push(PathCase { path: format!("/a%{}{}b/c", x as char, y as char), s3 });
            }
        }
        for s3 in [false, true] {
            out.push(PathCase { path: format!("/a%{}", x as char), s3 });
            out.push(PathCase { path: format!("/a%{}/b", x as char), s3 });
        }
    }
    for s3 in [false, true] {
        // targets that are not absolute paths at all
        for p in ["*", "a", "a/b", ".", "..", "%2F", "%2Fa", "?", "*/", "http://h/p", " /", "\\"] {
            out.push(PathCase { path: p.to_string(), s3 });
        }
        for p in ["/%", "/a%", "/%/a", "/a/%", "/é%C3", "/%é", "/%4é", "/%é4"] {
            out.push(PathCase { path: p.to_string(), s3 });
        }
    }
    out
}

const ALPHABET: &[&str] = &["", ".", "..", "%2e", "%2E%2e", ".%2E", "a", "%41", "a%2Fb", "~-_.", "*", "%zz", "%252E", "%252e%252E"];

fn alphabet_list(t: Tier) -> Vec<PathCase> {
    let max = if t == Tier::Thorough { 5 } else { 4 };
    let mut out = Vec::new();
    let mut cur: Vec<Vec<usize>> = vec![vec![]];
    for len in 0..=max {
        if len > 0 {
            let mut next = Vec::with_capacity(cur.len() * ALPHABET.len());
            for c in &cur {
                for i in 0..ALPHABET.len() {
                    let mut n = c.clone();
                    n.push(i);
                    next.push(n);
                }
            }
            cur = next;
        }
        for c in &cur {
            let body: String = c.iter().map(|i| format!("/{}", ALPHABET[*i])).collect();
            for trailing in [false, true] {
                let p = if trailing { format!("{}/", body) } else { body.clone() };
                for s3 in [false, true] {
                    out.push(PathCase { path: p.clone(), s3 });
                }
            }
        }
    }
    out
}

pub fn crate_canon(path: &str, s3: bool) -> Result<Result<String, exec::ErrInfo>, String> {
    match std::panic::catch_unwind(|| canonicalize_uri_path(path, s3)) {
        Err(p) => Err(exec::panic_message(p)),
        Ok(Ok(s)) => Ok(Ok(s)),
        Ok(Err(e)) => Ok(Err(exec::err_info(&e))),
    }
}

fn alphabet_ok(s: &str) -> bool {
    let b = s.as_bytes();
    let mut i = 0;
    while i < b.len() {
        if b[i] == b'%' {
            if i + 2 >= b.len() {
                return false;
            }
            let h = |c: u8| c.is_ascii_digit() || (b'A'..=b'F').contains(&c);
            if !h(b[i + 1]) || !h(b[i + 2]) {
                return false;
            }
            i += 3;
        } else if is_unreserved(b[i]) || b[i] == b'/' {
            i += 1;
        } else {
            return false;
        }
    }
    true
}

fn nontrivial_path(p: &str) -> bool {
    p.contains('%') || p.contains("/.") || p.contains("//") || p.bytes().any(|b| !is_unreserved(b) && b != b'/') || !p.starts_with('/')
}

/// Compare crate and model on one path; Err(sig, msg) on disagreement.
fn compare(pc: &PathCase) -> Result<Option<String>, Failure> {
    let model = canonical_path(pc.path.as_bytes(), pc.s3);
    let real = crate_canon(&pc.path, pc.s3).map_err(|m| Failure::new("panic:canonicalize_uri_path", format!("canonicalize_uri_path({:?}, {}) panicked: {}", pc.path, pc.s3, m)))?;
    match (&model, &real) {
        (Ok((m, dot_tail)), Ok(r)) => {
            if m == r || (*dot_tail && format!("{}/", m) == *r) {
                Ok(Some(r.clone()))
            } else {
                Err(Failure::new("canon-path-mismatch", format!("path {:?} s3={}: crate {:?}, reference {:?}", pc.path, pc.s3, r, m)))
            }
        }
        (Err(_), Err(e)) => {
            check_taxonomy(e)?;
            if e.kind == Some(Kind::InvalidURIPath) {
                Ok(None)
            } else {
                Err(Failure::new("canon-path-wrong-kind", format!("path {:?}: refused with {:?}, expected InvalidURIPath", pc.path, e.kind)))
            }
        }
        (Ok((m, _)), Err(e)) => Err(Failure::new("canon-path-rejected-valid", format!("path {:?} s3={}: crate refuses ({}), reference gives {:?}", pc.path, pc.s3, e.msg, m))),
        (Err(me), Ok(r)) => Err(Failure::new("canon-path-accepted-invalid", format!("path {:?} s3={}: crate gives {:?}, reference refuses ({:?})", pc.path, pc.s3, r, me))),
    }
}

#[derive(Clone, Debug, Serialize, Deserialize)]
pub struct LongPath {
    pub piece: String,
    pub count: usize,
    pub s3: bool,
    /// what the path starts with ("/" unless it is to be an INVALID long path: "/../", "/../a", ...)
    #[serde(default)]
    pub lead: String,
}

/// Paths whose RAW or CANONICAL length sits at a power of two (2^8 ... 2^17) or just beside it, built from
/// pieces that grow under re-encoding ('*' -> %2A, a two-byte character -> six bytes), keep their length, or vanish.
pub fn long_path_list(t: Tier) -> Vec<LongPath> {
    let pieces: &[(&str, usize)] = &[("a", 1), ("*", 3), ("+", 3), ("%20", 3), ("%2a", 3), ("\u{e9}", 6), ("ab/", 3), ("%2F/", 4), ("./x", 1)];
    let mut out = Vec::new();
    for k in [8u32, 10, 12, 14, 15, 16, 17] {
        if t == Tier::Quick && (k == 12 || k == 14) {
            continue;
        }
        let target = 1usize << k;
        for (piece, canon) in pieces {
            for by in [*canon, piece.len()] {
                // counts that put (1 + count * by) just below, at and just above the target
                let n = (target - 1) / by;
                for count in [n.saturating_sub(1), n, n + 1] {
                    for s3 in [false, true] {
                        out.push(LongPath { piece: piece.to_string(), count, s3, lead: String::new() });
                    }
                }
            }
        }
    }
    // long INVALID paths (they climb above the root), of multi-byte characters at every byte alignment: whatever echoes,
    // abbreviates or escapes the offending path in its message must cope with them
    for k in [6u32, 7, 8, 9, 10, 12, 16] {
        if t == Tier::Quick && (k == 9 || k == 12) {
            continue;
        }
        for lead in ["/../", "/../a", "/../ab", "/x/../../", "/%2E%2E/a", "/./../abc"] {
            for (piece, raw) in [("\u{e9}", 2usize), ("\u{65e5}", 3), ("\u{1d11e}", 4), ("a\u{e9}", 3)] {
                let n = (1usize << k) / raw;
                for count in [n.saturating_sub(1), n, n + 1] {
                    out.push(LongPath { piece: piece.to_string(), count, s3: false, lead: lead.to_string() });
                }
            }
        }
    }
    out
}

pub fn check_long_path(lp: &LongPath, cc: &mut CaseCtx) -> CheckResult {
    let path = format!("{}{}", if lp.lead.is_empty() { "/" } else { lp.lead.as_str() }, lp.piece.repeat(lp.count));
    cc.class_if(!lp.lead.is_empty(), "long-invalid-path");
    let mut inner = CaseCtx::default();
    let r = check_path(&PathCase { path: path.clone(), s3: lp.s3 }, &mut inner);
    cc.class("long-path");
    cc.class_if(path.len() > 21_845, "raw-longer-than-a-third-of-64KiB");
    cc.nontrivial(digest_of(&[lp.piece.as_bytes(), &lp.count.to_le_bytes(), &[lp.s3 as u8], lp.lead.as_bytes()]));
    if lp.count % 7 == 0 {
        cc.sample(json!({"path": format!("/ + {:?} x {}", lp.piece, lp.count), "raw_length": path.len(), "s3": lp.s3}));
    }
    r.map_err(|f| Failure::new(&f.sig, format!("path {:?} + {:?} x {} (raw {} bytes, s3={}): {}", if lp.lead.is_empty() { "/" } else { lp.lead.as_str() }, lp.piece, lp.count, path.len(), lp.s3, f.msg.chars().take(300).collect::<String>())))?;
    // end to end where the http crate can carry the target
    if path.len() < 65_000 && lp.count % 2 == 0 {
        let mut inner = CaseCtx::default();
        check_e2e_shape(&PathCase { path, s3: lp.s3 }, 0, &mut inner).map_err(|f| Failure::new(&f.sig, format!("path '/' + {:?} x {} (s3={}): {}", lp.piece, lp.count, lp.s3, f.msg.chars().take(300).collect::<String>())))?;
        cc.class("long-path-end-to-end");
    }
    Ok(())
}

pub fn check_path(pc: &PathCase, cc: &mut CaseCtx) -> CheckResult {
    let out = match compare(pc) {
        Ok(o) => o,
        Err(f) => {
            // known-finding shape, established causally: disagreement vanishes when every literal '+' is spelled %2B
            if pc.path.contains('+') && !f.sig.starts_with("panic") {
                let esc = PathCase { path: pc.path.replace('+', "%2B"), s3: pc.s3 };
                if compare(&esc).is_ok() {
                    return Err(Failure::new(&format!("{}+literal-plus-in-path", f.sig), f.msg));
                }
            }
            return Err(f);
        }
    };
    if let Some(r) = &out {
        if !alphabet_ok(r) {
            return Err(Failure::new("canon-path-alphabet", format!("path {:?}: output {:?} contains characters outside unreserved, '/', upper-case %HH", pc.path, r)));
        }
        match crate_canon(r, pc.s3) {
            Ok(Ok(again)) if again == *r => {}
            other => return Err(Failure::new("canon-path-not-idempotent", format!("path {:?} s3={}: c(p) = {:?} but c(c(p)) = {:?}", pc.path, pc.s3, r, other.map(|x| x.map_err(|e| e.msg))))),
        }
    }
    if nontrivial_path(&pc.path) {
        cc.class(if out.is_some() { "valid" } else { "invalid" });
        cc.class_if(pc.s3, "s3");
        cc.class_if(pc.path.contains("/.") || pc.path.to_ascii_lowercase().contains("%2e"), "dot-segment");
        cc.nontrivial(digest_of(&[pc.path.as_bytes(), &[pc.s3 as u8]]));
        cc.sample(json!({"path": pc.path, "s3": pc.s3, "canonical": out}));
    }
    Ok(())
}

pub fn check_respell(sp: &SpellPair, cc: &mut CaseCtx) -> CheckResult {
    let spell = |ch: &[u8]| -> String {
        let mut p = String::new();
        for (i, s) in sp.segments.iter().enumerate() {
            p.push('/');
            let rot: Vec<u8> = ch.iter().cycle().skip(i).take(ch.len()).cloned().collect();
            p.push_str(&spell_path_segment(&s.0, &rot, false));
        }
        if sp.segments.is_empty() || sp.trailing {
            p.push('/');
        }
        p
    };
    let (pa, pb) = (spell(&sp.a), spell(&sp.b));
    let mut c1 = CaseCtx::default();
    check_path(&PathCase { path: pa.clone(), s3: sp.s3 }, &mut c1)?;
    check_path(&PathCase { path: pb.clone(), s3: sp.s3 }, cc)?;
    let (ra, rb) = (crate_canon(&pa, sp.s3), crate_canon(&pb, sp.s3));
    let norm = |r: Result<Result<String, exec::ErrInfo>, String>| r.ok().map(|x| x.ok());
    let (ra, rb) = (norm(ra), norm(rb));
    if ra != rb {
        return Err(Failure::new("canon-path-spelling-dependent", format!("{:?} -> {:?} but {:?} -> {:?}", pa, ra, pb, rb)));
    }
    cc.class_if(pa != pb, "differently-spelled");
    Ok(())
}

/// End to end: a reference-signed request with this path is accepted / refused as the model says.
pub fn check_e2e(pc: &PathCase, cc: &mut CaseCtx) -> CheckResult {
    check_e2e_shape(pc, 0, cc)
}

pub fn check_e2e_shape(pc: &PathCase, shape: u8, cc: &mut CaseCtx) -> CheckResult {
    if !pc.path.starts_with('/') || pc.path.contains('?') || pc.path.contains('#') {
        return Ok(());
    }
    let query = ["", "?a=1&b=2", "?q=why?&next=/login?user=x&caption=who?", "?"][(shape >> 4) as usize & 3];
    let mut base = WireRequest { method: "GET".into(), uri: format!("{}{}", pc.path, query), version: 11, headers: vec![("Host".into(), B::from("h.example"))], body: B::default() };
    if shape & 2 != 0 {
        base.method = "POST".into();
        base.headers.push(("Content-Type".into(), B::from("application/x-www-form-urlencoded")));
        if shape & 8 == 0 {
            base.body = B::from("Action=ListThings&Version=2015-08-30");
        }
    }
    if exec::build_http(&base).is_err() {
        cc.class("unrepresentable");
        return Ok(());
    }
    // region and service are labels of the credential scope; they come from the dictionaries (a service called "s3" too)
    // and must not influence the normal form
    let pick = pc.path.len() + shape as usize;
    let cfg = ServerConfig { s3: pc.s3, fold: shape & 1 != 0, region: REGIONS[pick % REGIONS.len()].to_string(), service: SERVICES[pick / 3 % SERVICES.len()].to_string(), ..ServerConfig::default() };
    let spec = SignSpec::basic(if shape & 4 != 0 { Carrier::Query } else { Carrier::Header }, "AKIDEXAMPLE", "secret", "20150830T123600Z");
    cc.class_if(shape & 3 == 3, "folded-form");
    cc.class_if(shape & 3 == 3 && pc.s3, "folded-form-in-s3-mode");
    cc.class_if(shape >> 4 & 3 == 2, "question-marks-inside-the-query");
    let req = match sign(&base, &cfg, &spec) {
        Ok(s) => s.req,
        // invalid path: nothing to sign; send it with a dummy signature, the path rule must fire first
        Err(_) => crate::model::sign::attach(&base, &cfg, &spec, &format!("AKIDEXAMPLE/20150830/{}/{}/aws4_request", cfg.region, cfg.service), &"0".repeat(64)),
    };
    let prov = ProviderScript { keys: vec![KeyEntry { access_key: "AKIDEXAMPLE".into(), token: None, secret: "secret".into(), derive_as: None, principal: PrincipalSpec::Empty, session: vec![] }], ..ProviderScript::default() };
    let case = Case { req, cfg, prov };
    let a = analyze(&case);
    let o = exec::run(&case);
    if !a.verdict().is_specified() {
        cc.unspecified = true;
    } else if nontrivial_path(&pc.path) {
        cc.class(if a.verdict().is_accept() { "e2e-accept" } else { "e2e-reject" });
        cc.nontrivial(digest_of(&[pc.path.as_bytes(), &[pc.s3 as u8, shape]]));
    }
    check_against_model(&a, &o).map_err(|f| {
        if let Some(c2) = super::c01::escape_plus_in_path(&case) {
            // re-sign for the escaped spelling and see whether the disagreement vanishes
            let base2 = WireRequest { uri: c2.req.uri.clone(), ..base.clone() };
            if let Ok(s2) = sign(&base2, &case.cfg, &spec) {
                let case2 = Case { req: s2.req, cfg: case.cfg.clone(), prov: case.prov.clone() };
                if check_against_model(&analyze(&case2), &exec::run(&case2)).is_ok() {
                    return Failure::new(&format!("{}+literal-plus-in-path", f.sig), f.msg);
                }
            }
        }
        f
    })
}
