//! C10 -- canonical query depends only on the multiset of parameters, spec-sorted.

use super::common::*;
use crate::engine::*;
use crate::exec;
use crate::gen::*;
use crate::model::canon::*;
use crate::model::verify::*;
use crate::types::*;
use proptest::prelude::*;
use scratchstack_aws_signature::canonical::{canonicalize_query_to_string, query_string_to_normalized_map};
use serde::{Deserialize, Serialize};
use serde_json::json;

pub const RULE: &str = "enumerated completely: every byte 0-255 as a parameter name and as a value in every spelling (literal where a string allows it, %HH, %hh, '+'); every two-character escape %xy over all 128x128 ASCII pairs in name and value position plus the truncated forms; every ordering of every 2- and 3-element subset of a prefix-related name set {a, a-, a., a0, a%, a=, aa, A, a~, ''} (separator bytes below and above '='); generated: parameter multisets with clustered names, two independent orders/spellings/'&&' paddings/missing '=' of each, raw random query strings; query strings of 2^k-1 ... 2^k+2 segments for k = 5..14 in five shapes (also end to end, in the URL and as a folded form body). Oracle: crate output == reference (once-encoded pairs sorted by (name, value) bytewise, X-Amz-Signature removed, '&'-joined) or both fail with MalformedQueryString/400; two spellings/orders of one multiset give the same string; decoding the output yields exactly the input multiset minus X-Amz-Signature; the output over a corpus is identical in >= 8 (quick) / 32 (thorough) freshly spawned processes (different hash seeds). Non-trivial: >= 2 parameters and (repeated name, prefix-related names, empty name/value, escaped byte or '+'); distinct by canonical multiset.";

#[derive(Clone, Debug, Serialize, Deserialize, PartialEq, Eq)]
pub struct RawQuery {
    pub query: String,
}

#[derive(Clone, Debug, Serialize, Deserialize)]
pub struct Multiset {
    pub pairs: Vec<(B, B)>,
    pub a: Spelling,
    pub b: Spelling,
}

pub fn subs() -> Vec<Box<dyn AnySub>> {
    vec![
        Box::new(EnumSub { name: "every-byte", exhaustive: true, list: byte_list, check: check_raw }),
        Box::new(EnumSub { name: "every-escape", exhaustive: true, list: escape_list, check: check_raw }),
        Box::new(EnumSub { name: "prefix-orderings", exhaustive: true, list: ordering_list, check: check_raw }),
        Box::new(Sub {
            name: "multiset",
            quick: 50_000,
            thorough: 1_500_000,
            strat: || (query_pairs(7), spelling(), spelling()).prop_map(|(pairs, a, b)| Multiset { pairs, a, b }).boxed(),
            check: check_multiset,
        }),
        Box::new(Sub { name: "raw", quick: 30_000, thorough: 600_000, strat: raw_query, check: check_raw }),
        // the canonical query is the same under every option combination and scope label ('+' is a space everywhere)
        Box::new(Sub {
            name: "e2e-under-every-option",
            quick: 15_000,
            thorough: 200_000,
            strat: || (raw_query(), any::<bool>(), any::<bool>(), any::<bool>(), any::<u16>()).prop_map(|(q, s3, fold, query_carrier, pick)| OptCase { query: q.query, s3, fold, query_carrier, pick }).boxed(),
            check: check_opt,
        }),
        Box::new(EnumSub { name: "many-parameters", exhaustive: true, list: many_list, check: check_many }),
    ]
}

#[derive(Clone, Debug, Serialize, Deserialize)]
pub struct OptCase {
    pub query: String,
    pub s3: bool,
    pub fold: bool,
    pub query_carrier: bool,
    pub pick: u16,
}

pub fn check_opt(oc: &OptCase, cc: &mut CaseCtx) -> CheckResult {
    use crate::model::sign::{sign, SignSpec};
    if oc.query.contains('#') {
        return Ok(());
    }
    let base = WireRequest { method: "GET".into(), uri: format!("/?{}", oc.query), version: 11, headers: vec![("Host".into(), B::from("h.example"))], body: B::default() };
    if crate::exec::build_http(&base).is_err() {
        return Ok(());
    }
    let cfg = ServerConfig { fold: oc.fold, s3: oc.s3, region: REGIONS[pick_idx(oc.pick, REGIONS.len())].to_string(), service: SERVICES[pick_idx(oc.pick.rotate_left(5), SERVICES.len())].to_string(), ..ServerConfig::default() };
    let spec = SignSpec::basic(if oc.query_carrier { Carrier::Query } else { Carrier::Header }, "AKIDEXAMPLE", "secret", "20150830T123600Z");
    let Ok(signed) = sign(&base, &cfg, &spec) else {
        cc.class("unsignable");
        return Ok(());
    };
    let prov = ProviderScript { keys: vec![KeyEntry { access_key: "AKIDEXAMPLE".into(), token: None, secret: "secret".into(), derive_as: None, principal: PrincipalSpec::Empty, session: vec![] }], ..ProviderScript::default() };
    let case = Case { req: signed.req, cfg, prov };
    let (a, o) = (analyze(&case), crate::exec::run(&case));
    if !a.verdict().is_specified() {
        cc.unspecified = true;
        return check_total(&o);
    }
    cc.class(if a.verdict().is_accept() { "accept" } else { "reject" });
    cc.class_if(oc.s3, "s3-option");
    cc.class_if(oc.query.contains('+'), "plus-in-query");
    cc.nontrivial(digest_of(&[oc.query.as_bytes(), &[oc.s3 as u8, oc.fold as u8, oc.query_carrier as u8]]));
    check_against_model(&a, &o)
}

#[derive(Clone, Debug, Serialize, Deserialize)]
pub struct Many {
    pub count: usize,
    /// 0 distinct names in descending order, 1 names only, 2 empty segments followed by two pairs, 3 one name repeated, 4 empty segments in between
    pub shape: u8,
}

/// Numbers of '&'-separated segments at powers of two (2^5 ... 2^14) and just beside them.
pub fn many_list(t: Tier) -> Vec<Many> {
    let mut out = Vec::new();
    for k in 5u32..=14 {
        if t == Tier::Quick && [6, 7, 9, 13].contains(&k) {
            continue;
        }
        for d in [-1i64, 0, 1, 2] {
            for shape in 0..5u8 {
                out.push(Many { count: ((1i64 << k) + d) as usize, shape });
            }
        }
    }
    out
}

pub fn many_query(m: &Many) -> String {
    let n = m.count;
    match m.shape {
        0 => (0..n).rev().map(|i| format!("p{:05}={}", i, i)).collect::<Vec<_>>().join("&"),
        1 => (0..n).map(|i| format!("n{}", (i * 7919) % n)).collect::<Vec<_>>().join("&"),
        2 => format!("{}b=2&a=1", "&".repeat(n.saturating_sub(2))),
        3 => (0..n).map(|i| format!("k=v{}", (i * 31) % 97)).collect::<Vec<_>>().join("&"),
        _ => (0..n).map(|i| if i % 2 == 0 { format!("z{}=", n - i) } else { String::new() }).collect::<Vec<_>>().join("&"),
    }
}

pub fn check_many(m: &Many, cc: &mut CaseCtx) -> CheckResult {
    let query = many_query(m);
    let mut inner = CaseCtx::default();
    let short = |f: Failure| Failure::new(&f.sig, format!("{} segments (shape {}), {} bytes: {}", m.count, m.shape, query.len(), f.msg.chars().take(240).collect::<String>()));
    check_raw(&RawQuery { query: query.clone() }, &mut inner).map_err(short)?;
    cc.class("many-segments");
    cc.class_if(m.count > 1024, "more-than-1024-segments");
    cc.nontrivial(digest_of(&[&m.count.to_le_bytes(), &[m.shape]]));
    if m.shape == 0 {
        cc.sample(json!({"segments": m.count, "shape": m.shape, "bytes": query.len()}));
    }
    // end to end (URL and folded form body) where the request target can carry it
    if query.len() < 60_000 {
        use crate::model::sign::{sign, SignSpec};
        for (in_body, s3) in [(false, false), (true, false), (false, true), (true, true)] {
            let mut base = WireRequest { method: if in_body { "POST".into() } else { "GET".into() }, uri: if in_body { "/".into() } else { format!("/?{}", query) }, version: 11, headers: vec![("Host".into(), B::from("h.example"))], body: B::default() };
            if in_body {
                base.headers.push(("Content-Type".into(), B::from("application/x-www-form-urlencoded")));
                base.body = B::from(query.as_str());
            }
            let cfg = ServerConfig { fold: in_body, s3, service: if s3 { "s3".into() } else { "service".into() }, ..ServerConfig::default() };
            let spec = SignSpec::basic(Carrier::Header, "AKIDEXAMPLE", "secret", "20150830T123600Z");
            let Ok(signed) = sign(&base, &cfg, &spec) else { continue };
            let prov = ProviderScript { keys: vec![KeyEntry { access_key: "AKIDEXAMPLE".into(), token: None, secret: "secret".into(), derive_as: None, principal: PrincipalSpec::Empty, session: vec![] }], ..ProviderScript::default() };
            let case = Case { req: signed.req, cfg, prov };
            let (a, o) = (analyze(&case), crate::exec::run(&case));
            if a.verdict().is_specified() {
                check_against_model(&a, &o).map_err(short)?;
                cc.class(if in_body { "end-to-end-folded-body" } else { "end-to-end-url" });
            }
        }
    }
    Ok(())
}

fn raw_query() -> BoxedStrategy<RawQuery> {
    let piece = prop_oneof![
        6 => Just("&".to_string()),
        6 => Just("=".to_string()),
        2 => Just("+".to_string()),
        1 => Just("%".to_string()),
        1 => Just("%zz".to_string()),
        1 => Just("X-Amz-Signature".to_string()),
        1 => Just("X-Amz-Signature=abc".to_string()),
        1 => Just("x-amz-signature=abc".to_string()),
        1 => Just("X-AMZ-SIGNATURE".to_string()),
        1 => Just("X-Amz-Signature2=1".to_string()),
        10 => "[a-zA-Z0-9._~-]{1,3}",
        3 => "[ -~]{1,2}",
        2 => any::<u8>().prop_map(|b| format!("%{:02X}", b)),
        2 => any::<u8>().prop_map(|b| format!("%{:02x}", b)),
        1 => "\\PC{1,2}",
    ];
    proptest::collection::vec(piece, 0..16).prop_map(|v| RawQuery { query: v.concat() }).boxed()
}

fn byte_list(_t: Tier) -> Vec<RawQuery> {
    let mut out = Vec::new();
    for b in 0u16..256 {
        let b = b as u8;
        let mut sp = vec![format!("%{:02X}", b), format!("%{:02x}", b), (b as char).to_string()];
        if b == b' ' {
            sp.push("+".into());
        }
        for s in sp {
            for ctx in ["{}=v", "n={}", "a{}b=1&a=2", "a=x{}y&a=x", "{}", "{}={}"] {
                out.push(RawQuery { query: ctx.replace("{}", &s) });
            }
        }
    }
    out
}

fn escape_list(_t: Tier) -> Vec<RawQuery> {
    let mut out = Vec::new();
    for x in 0u8..128 {
        for y in 0u8..128 {
            if x == b'&' || y == b'&' {
                continue;
            }
            out.push(RawQuery { query: format!("n%{}{}=v", x as char, y as char) });
            out.push(RawQuery { query: format!("n=v%{}{}w&a=1", x as char, y as char) });
        }
        out.push(RawQuery { query: format!("n=v%{}", x as char) });
        out.push(RawQuery { query: format!("n%{}", x as char) });
    }
    out
}

fn ordering_list(_t: Tier) -> Vec<RawQuery> {
    const NAMES: &[&str] = &["a", "a-", "a.", "a0", "a%25", "a%3D", "aa", "A", "a~", "", "a%20", "a!"];
    let mut out = Vec::new();
    let n = NAMES.len();
    for i in 0..n {
        for j in 0..n {
            if i == j {
                continue;
            }
            for (vi, vj) in [("1", "2"), ("", ""), ("b", "a"), ("-", "=")] {
                out.push(RawQuery { query: format!("{}={}&{}={}", NAMES[i], vi, NAMES[j], vj) });
            }
            for k in 0..n {
                if k == i || k == j {
                    continue;
                }
                out.push(RawQuery { query: format!("{}=1&{}=2&{}=3", NAMES[i], NAMES[j], NAMES[k]) });
            }
        }
    }
    out
}

/// The crate's canonical query for a raw query string: Ok(string) / Err(info); Err(String) = panic.
pub fn crate_query(q: &str) -> Result<Result<String, exec::ErrInfo>, String> {
    match std::panic::catch_unwind(|| query_string_to_normalized_map(q).map(|m| canonicalize_query_to_string(&m))) {
        Err(p) => Err(exec::panic_message(p)),
        Ok(Ok(s)) => Ok(Ok(s)),
        Ok(Err(e)) => Ok(Err(exec::err_info(&e))),
    }
}

fn sorted_multiset(mut v: Vec<(Vec<u8>, Vec<u8>)>) -> Vec<(Vec<u8>, Vec<u8>)> {
    v.sort();
    v
}

pub fn check_raw(rq: &RawQuery, cc: &mut CaseCtx) -> CheckResult {
    let q = rq.query.as_str();
    let model = parse_query(q.as_bytes());
    let real = crate_query(q).map_err(|m| Failure::new("panic:query", format!("query canonicalisation of {:?} panicked: {}", q, m)))?;
    match (&model, &real) {
        (Ok(pairs), Ok(r)) => {
            let want = canonical_query(pairs);
            if *r != want {
                return Err(Failure::new("canon-query-mismatch", format!("query {:?}: crate {:?}, reference {:?}", q, r, want)));
            }
            // every pair present exactly once, only X-Amz-Signature removed
            let back = parse_query(r.as_bytes()).map_err(|_| Failure::new("canon-query-output-unparsable", format!("output {:?} does not parse", r)))?;
            let expect: Vec<(Vec<u8>, Vec<u8>)> = pairs.iter().filter(|(n, _)| n.as_slice() != b"X-Amz-Signature").cloned().collect();
            if sorted_multiset(back) != sorted_multiset(expect) {
                return Err(Failure::new("canon-query-multiset", format!("query {:?}: output {:?} does not carry exactly the input pairs", q, r)));
            }
            let names: Vec<&Vec<u8>> = pairs.iter().map(|(n, _)| n).collect();
            let repeated = names.iter().enumerate().any(|(i, n)| names[..i].contains(n));
            let prefix = names.iter().any(|n| names.iter().any(|m| m.len() > n.len() && m.starts_with(n)));
            let empty = pairs.iter().any(|(n, v)| n.is_empty() || v.is_empty());
            let esc = q.contains('%') || q.contains('+');
            if pairs.len() >= 2 && (repeated || prefix || empty || esc) {
                cc.class_if(repeated, "repeated-name");
                cc.class_if(prefix, "prefix-related-names");
                cc.class_if(empty, "empty-name-or-value");
                cc.class_if(esc, "escapes");
                cc.nontrivial(digest_of(&[want.as_bytes()]));
                cc.sample(json!({"query": q, "canonical": r}));
            }
            Ok(())
        }
        (Err(_), Err(e)) => {
            check_taxonomy(e)?;
            cc.class("malformed");
            if e.kind == Some(Kind::MalformedQueryString) {
                Ok(())
            } else {
                Err(Failure::new("canon-query-wrong-kind", format!("query {:?}: refused with {:?}, expected MalformedQueryString", q, e.kind)))
            }
        }
        (Ok(p), Err(e)) => Err(Failure::new("canon-query-rejected-valid", format!("query {:?}: crate refuses ({}), reference gives {:?}", q, e.msg, canonical_query(p)))),
        (Err(_), Ok(r)) => Err(Failure::new("canon-query-accepted-malformed", format!("query {:?} has a malformed escape but the crate gives {:?}", q, r))),
    }
}

pub fn spell_query(pairs: &[(B, B)], sp: &Spelling) -> String {
    let l = Logical { method: "GET".into(), segments: vec![], trailing_slash: false, query: pairs.to_vec(), headers: vec![], body: B::default() };
    let w = spell(&l, sp, false);
    w.query().unwrap_or("").to_string()
}

pub fn check_multiset(m: &Multiset, cc: &mut CaseCtx) -> CheckResult {
    let (qa, qb) = (spell_query(&m.pairs, &m.a), spell_query(&m.pairs, &m.b));
    let logical: Vec<(Vec<u8>, Vec<u8>)> = m.pairs.iter().map(|(n, v)| (n.0.clone(), v.0.clone())).collect();
    let want = canonical_query(&logical);
    for q in [&qa, &qb] {
        match parse_query(q.as_bytes()) {
            Ok(p) if canonical_query(&p) == want => {}
            _ => return Err(harness_bug(format!("query speller does not denote the multiset: {:?}", q))),
        }
    }
    let mut c1 = CaseCtx::default();
    check_raw(&RawQuery { query: qa.clone() }, &mut c1)?;
    check_raw(&RawQuery { query: qb.clone() }, cc)?;
    let (ra, rb) = (crate_query(&qa), crate_query(&qb));
    let norm = |r: Result<Result<String, exec::ErrInfo>, String>| r.ok().and_then(|x| x.ok());
    let (ra, rb) = (norm(ra), norm(rb));
    if ra != rb {
        return Err(Failure::new("canon-query-spelling-or-order-dependent", format!("{:?} -> {:?} but {:?} -> {:?}", qa, ra, qb, rb)));
    }
    cc.class_if(qa != qb, "two-spellings");
    Ok(())
}

// ---- cross-process determinism (different HashMap seeds per process)

pub fn corpus(seed: u64, n: usize) -> Vec<String> {
    use proptest::strategy::ValueTree;
    use proptest::test_runner::{Config, RngSeed, TestRunner};
    let mut runner = TestRunner::new(Config { rng_seed: RngSeed::Fixed(mix(seed, "c10-corpus", 0)), failure_persistence: None, ..Config::default() });
    let st = (query_pairs(8), spelling());
    let mut out = Vec::with_capacity(n);
    for _ in 0..n {
        let (pairs, sp) = st.new_tree(&mut runner).unwrap().current();
        out.push(spell_query(&pairs, &sp));
    }
    out
}

pub fn corpus_digest(c: &[String]) -> u64 {
    let mut acc = Vec::new();
    for q in c {
        match crate_query(q) {
            Ok(Ok(s)) => acc.extend_from_slice(s.as_bytes()),
            Ok(Err(e)) => acc.extend_from_slice(format!("{:?}", e.kind).as_bytes()),
            Err(_) => acc.extend_from_slice(b"PANIC"),
        }
        acc.push(b'\n');
    }
    crate::model::crypto::fnv64(&acc)
}

/// worker entry: `verif __c10worker <seed> <n>` prints the digest
pub fn worker(seed: u64, n: usize) {
    println!("{:016x}", corpus_digest(&corpus(seed, n)));
}

pub fn extra(ctx: &Ctx) {
    let n = ctx.tier.pick(3000, 20_000) as usize;
    let procs = ctx.tier.pick(8, 32);
    let here = corpus_digest(&corpus(ctx.seed, n));
    let exe = match std::env::current_exe() {
        Ok(e) => e,
        Err(e) => {
            ctx.inconclusive.lock().unwrap().push(format!("cannot find own executable: {}", e));
            return;
        }
    };
    let mut children = Vec::new();
    for _ in 0..procs {
        match std::process::Command::new(&exe).args(["__c10worker", &ctx.seed.to_string(), &n.to_string()]).output() {
            Ok(o) => children.push(String::from_utf8_lossy(&o.stdout).trim().to_string()),
            Err(e) => {
                ctx.inconclusive.lock().unwrap().push(format!("cannot spawn worker: {}", e));
                return;
            }
        }
    }
    let want = format!("{:016x}", here);
    let differing = children.iter().filter(|c| **c != want).count();
    ctx.extra("cross_process", json!({"processes": procs, "corpus_size": n, "digest": want, "differing": differing}));
    let mut cc = CaseCtx::default();
    cc.class("process-launch");
    for i in 0..procs {
        let mut c = CaseCtx::default();
        c.class("process-launch");
        c.nontrivial(mix(ctx.seed, "proc", i));
        ctx.record("cross-process", c);
    }
    if differing > 0 {
        let f = Failure::new("canon-query-process-dependent", format!("{} of {} fresh processes produced a different canonical-query digest over the same {}-query corpus", differing, procs, n));
        ctx.violation("cross-process", &json!({"seed": ctx.seed, "n": n}), &f);
    }
}
