//! C11 -- header canonicalisation: signed headers bound, unsigned ones without influence.

use super::common::*;
use crate::engine::*;
use crate::exec;
use crate::gen::*;
use crate::model::canon::canonical_headers_block;
use crate::model::verify::*;
use crate::types::*;
use proptest::prelude::*;
use serde::{Deserialize, Serialize};
use serde_json::json;

pub const RULE: &str = "generated: header multiset (names in any case, repeated names, values with visible bytes, 0x80-0xFF, tabs, spaces) x signed subset, reference-signed -- the request is plain in every other dimension, so it must be accepted (the reference canonical header block is the only non-trivial ingredient); then ONE edit with the OLD signature: of a signed header (value byte, outer spaces, inner space runs, inserted space, tab for space, add/remove/swap values, value letter case), of header-name case, of the arrival order across different names, or of an unconsulted header (insert, delete, modify, duplicate). A second sub-check does the same on form POSTs whose body the server folds into the query, with Content-Length and Content-Type among the signed headers. Oracle: the edited request is accepted iff the reference model's canonical header block (lower-cased sorted names, trimmed/collapsed values, comma-joined in arrival order) and requirement verdict are unchanged -- i.e. model Accept => crate Ok, model Reject => crate refuses. Non-trivial: the edit was applied to a request the crate accepted before the edit; must-stay-valid and must-become-invalid classes are counted separately; distinct by (request digest, edit).";

#[derive(Clone, Debug, Serialize, Deserialize)]
pub enum HEdit {
    /// (header selector, position, new byte)
    ValueByte(u16, u16, u8),
    OuterSpaces(u16, u8, u8),
    WidenInnerSpace(u16, u16, u8),
    InsertSpace(u16, u16),
    SpaceToTab(u16, u16),
    AddValue(u16, bool),
    RemoveValue(u16),
    SwapValues(u16),
    ValueCase(u16, u16),
    NameCase(u16, u8),
    Reorder(Vec<u16>),
    InsertUnsigned(u16, u16),
    DuplicateHeader(u16),
}

#[derive(Clone, Debug, Serialize, Deserialize)]
pub struct HeaderCase {
    pub plan: Plan,
    pub edit: HEdit,
}

pub fn hedit() -> BoxedStrategy<HEdit> {
    use HEdit::*;
    prop_oneof![
        4 => (any::<u16>(), any::<u16>(), 0x21u8..=0xff).prop_map(|(a, b, c)| ValueByte(a, b, c)),
        3 => (any::<u16>(), 0u8..4, 0u8..4).prop_map(|(a, b, c)| OuterSpaces(a, b, c)),
        2 => (any::<u16>(), any::<u16>(), 1u8..4).prop_map(|(a, b, c)| WidenInnerSpace(a, b, c)),
        2 => (any::<u16>(), any::<u16>()).prop_map(|(a, b)| InsertSpace(a, b)),
        2 => (any::<u16>(), any::<u16>()).prop_map(|(a, b)| SpaceToTab(a, b)),
        2 => (any::<u16>(), any::<bool>()).prop_map(|(a, b)| AddValue(a, b)),
        2 => any::<u16>().prop_map(RemoveValue),
        2 => any::<u16>().prop_map(SwapValues),
        2 => (any::<u16>(), any::<u16>()).prop_map(|(a, b)| ValueCase(a, b)),
        3 => (any::<u16>(), any::<u8>()).prop_map(|(a, b)| NameCase(a, b)),
        3 => proptest::collection::vec(any::<u16>(), 1..8).prop_map(Reorder),
        4 => (any::<u16>(), any::<u16>()).prop_map(|(a, b)| InsertUnsigned(a, b)),
        2 => any::<u16>().prop_map(DuplicateHeader),
    ]
    .boxed()
}

pub fn header_plan() -> BoxedStrategy<Plan> {
    plan(PlanOpts {
        logical: LogicalOpts { max_segments: 0, max_query: 0, max_headers: 6, body_class: 0, raw_segments: false },
        allow_s3: true,
        allow_fold: false,
        form_bodies: false,
        ..PlanOpts::default()
    })
}

pub fn subs() -> Vec<Box<dyn AnySub>> {
    vec![Box::new(Sub {
        name: "header-edit",
        quick: 60_000,
        thorough: 1_000_000,
        strat: || (header_plan(), hedit()).prop_map(|(plan, edit)| HeaderCase { plan, edit }).boxed(),
        check: check_edit,
    }),
    // the same edits on a form POST whose body the server folds into the query string; Content-Length and
    // Content-Type are among the signed headers (they describe the body that is about to be replaced)
    Box::new(Sub {
        name: "header-edit-on-folded-form",
        quick: 20_000,
        thorough: 300_000,
        strat: || {
            (plan(PlanOpts { logical: LogicalOpts { max_segments: 0, max_query: 1, max_headers: 4, body_class: 0, raw_segments: false }, allow_s3: true, allow_fold: true, form_bodies: true, ..PlanOpts::default() }), hedit(), any::<u8>())
                .prop_map(|(mut plan, edit, pick)| {
                    plan.cfg.fold = true;
                    if plan.form.is_none() {
                        plan.form = Some(vec![(B::from("Action"), B::from("ListThings"))]);
                    }
                    if !plan.logical.headers.iter().any(|(n, _)| n == "content-length") {
                        plan.logical.headers.push(("content-length".into(), vec![B::from(["17", "0", "1", "4096"][pick as usize % 4])]));
                    }
                    for (bit, name) in [(1u8, "content-length"), (2, "content-type")] {
                        if pick & (bit << 4) == 0 && !plan.spec.signed_headers.iter().any(|h| h == name) {
                            plan.spec.signed_headers.push(name.into());
                            if !plan.spec.keep_order {
                                plan.spec.signed_headers.sort();
                            }
                        }
                    }
                    HeaderCase { plan, edit }
                })
                .boxed()
        },
        check: check_edit,
    }),
    // (last: the log level is process-wide) the same edits while a logger renders every record down to trace level --
    // the canonical request, and with it every header value, is formatted for the log
    Box::new(Sub {
        name: "header-edit-with-trace-logging",
        quick: 15_000,
        thorough: 200_000,
        strat: || (header_plan(), hedit()).prop_map(|(plan, edit)| HeaderCase { plan, edit }).boxed(),
        check: |hc, cc| {
            exec::enable_log_capture();
            exec::with_logs(|| check_edit(hc, cc)).0.map_err(|f| if f.sig == "HARNESS" { f } else { Failure::new(&format!("{}:trace-logging", f.sig), f.msg) })
        },
    })]
}

const UNSIGNED_NAMES: &[&str] = &["x-unsigned", "accept-language", "via", "x-forwarded-for", "x-amz-meta-zzz", "cookie", "x-custom-3", "etag", "te"];

fn not_auth(n: &str) -> bool {
    !n.eq_ignore_ascii_case("authorization")
}

pub fn apply(e: &HEdit, req: &mut WireRequest) -> Option<&'static str> {
    use HEdit::*;
    let hs = &mut req.headers;
    let candidates: Vec<usize> = hs.iter().enumerate().filter(|(_, (n, _))| not_auth(n)).map(|(i, _)| i).collect();
    if candidates.is_empty() {
        return None;
    }
    let pick = |x: u16| candidates[pick_idx(x, candidates.len())];
    match e {
        ValueByte(h, pos, b) => {
            let v = &mut hs[pick(*h)].1 .0;
            let idx: Vec<usize> = v.iter().enumerate().filter(|(_, c)| **c != b' ').map(|(i, _)| i).collect();
            if idx.is_empty() || *b == 0x7f {
                return None;
            }
            let j = idx[pick_idx(*pos, idx.len())];
            if v[j] == *b {
                return None;
            }
            v[j] = *b;
            Some("value-byte")
        }
        OuterSpaces(h, l, t) => {
            if *l == 0 && *t == 0 {
                return None;
            }
            let v = &mut hs[pick(*h)].1 .0;
            let mut nv = vec![b' '; *l as usize];
            nv.extend_from_slice(v);
            nv.extend(std::iter::repeat(b' ').take(*t as usize));
            *v = nv;
            Some("outer-spaces")
        }
        WidenInnerSpace(h, pos, n) => {
            let v = &mut hs[pick(*h)].1 .0;
            let t0 = v.iter().position(|c| *c != b' ')?;
            let t1 = v.iter().rposition(|c| *c != b' ')?;
            let idx: Vec<usize> = (t0..t1).filter(|i| v[*i] == b' ').collect();
            if idx.is_empty() {
                return None;
            }
            let j = idx[pick_idx(*pos, idx.len())];
            for _ in 0..*n {
                v.insert(j, b' ');
            }
            Some("widen-inner-space")
        }
        InsertSpace(h, pos) => {
            let v = &mut hs[pick(*h)].1 .0;
            // between two non-space bytes
            let idx: Vec<usize> = (1..v.len()).filter(|i| v[*i] != b' ' && v[*i - 1] != b' ').collect();
            if idx.is_empty() {
                return None;
            }
            let j = idx[pick_idx(*pos, idx.len())];
            v.insert(j, b' ');
            Some("insert-space")
        }
        SpaceToTab(h, pos) => {
            let v = &mut hs[pick(*h)].1 .0;
            let idx: Vec<usize> = v.iter().enumerate().filter(|(_, c)| **c == b' ').map(|(i, _)| i).collect();
            if idx.is_empty() {
                if v.is_empty() {
                    return None;
                }
                let j = pick_idx(*pos, v.len());
                v.insert(j, b'\t');
            } else {
                let j = idx[pick_idx(*pos, idx.len())];
                v[j] = b'\t';
            }
            Some("tab")
        }
        AddValue(h, front) => {
            let i = pick(*h);
            let n = hs[i].0.clone();
            if *front {
                hs.insert(0, (n, B::from("added")));
            } else {
                hs.push((n, B::from("added")));
            }
            Some("add-value")
        }
        RemoveValue(h) => {
            hs.remove(pick(*h));
            Some("remove-value")
        }
        SwapValues(h) => {
            let i = pick(*h);
            let n = hs[i].0.to_ascii_lowercase();
            let idx: Vec<usize> = hs.iter().enumerate().filter(|(_, (m, _))| m.eq_ignore_ascii_case(&n)).map(|(k, _)| k).collect();
            if idx.len() < 2 {
                return None;
            }
            hs.swap(idx[0], idx[1]);
            Some("swap-values")
        }
        ValueCase(h, pos) => {
            let v = &mut hs[pick(*h)].1 .0;
            let idx: Vec<usize> = v.iter().enumerate().filter(|(_, c)| c.is_ascii_alphabetic()).map(|(i, _)| i).collect();
            if idx.is_empty() {
                return None;
            }
            let j = idx[pick_idx(*pos, idx.len())];
            v[j] ^= 0x20;
            Some("value-case")
        }
        NameCase(h, pat) => {
            let i = pick(*h);
            let n = spell_header_name(&hs[i].0.to_ascii_lowercase(), *pat);
            if n == hs[i].0 {
                return None;
            }
            hs[i].0 = n;
            Some("name-case")
        }
        Reorder(keys) => {
            let mut groups: Vec<String> = Vec::new();
            for (n, _) in hs.iter() {
                let l = n.to_ascii_lowercase();
                if !groups.contains(&l) {
                    groups.push(l);
                }
            }
            let flat: Vec<(usize, String, B)> =
                hs.iter().map(|(n, v)| (groups.iter().position(|g| *g == n.to_ascii_lowercase()).unwrap(), n.clone(), v.clone())).collect();
            let new = interleave(flat, keys);
            if new == *hs {
                return None;
            }
            *hs = new;
            Some("reorder-across-names")
        }
        InsertUnsigned(which, pos) => {
            // a plain header, or one with inner structure that some component might be tempted to interpret
            const STRUCTURED: &[(&str, &str)] = &[
                ("content-type", "application/json; charset=utf8mb4"),
                ("content-type", "text/plain; charset=\"utf-8\""),
                ("content-type", "application/octet-stream; charset=binary"),
                ("content-type", "text/html; charset=klingon"),
                ("content-type", "multipart/form-data; boundary=x; charset=x-unknown"),
                ("content-length", "12"),
                ("content-encoding", "gzip"),
                ("transfer-encoding", "chunked"),
                ("referer", "https://example.com/from?x=1"),
                ("user-agent", "aws-sdk-rust/1.0 os/linux"),
                ("x-forwarded-for", "10.1.2.3, 10.4.5.6"),
                ("x-forwarded-proto", "http"),
                ("x-amz-content-sha256", "UNSIGNED-PAYLOAD"),
                ("x-amz-content-sha256", "STREAMING-AWS4-HMAC-SHA256-PAYLOAD"),
                ("x-amz-expires", "1"),
                ("expires", "Thu, 01 Jan 1970 00:00:00 GMT"),
                ("date", "Thu, 01 Jan 1970 00:00:00 GMT"),
                ("x-amz-security-token", "unsolicited-token"),
                ("x-amz-algorithm", "AWS4-HMAC-SHA256"),
                ("x-amz-credential", "AKIDOTHER/20150830/us-east-1/service/aws4_request"),
                ("x-amz-signedheaders", "host"),
                ("x-amz-signature", "0000000000000000000000000000000000000000000000000000000000000000"),
                ("expect", "100-continue"),
                ("connection", "close, x-unsigned"),
                ("x-http-method-override", "DELETE"),
                ("x-original-url", "/admin"),
            ];
            let at = pick_idx(*pos, hs.len() + 1);
            if which % 3 == 0 {
                let (n, v) = STRUCTURED[pick_idx((which / 3).wrapping_mul(3).wrapping_add(2), STRUCTURED.len())];
                hs.insert(at, (n.to_string(), B::from(v)));
                return Some("insert-structured-header");
            }
            let n = UNSIGNED_NAMES[pick_idx(*which, UNSIGNED_NAMES.len())];
            hs.insert(at, (n.to_string(), B::from("whatever value")));
            Some("insert-header")
        }
        DuplicateHeader(h) => {
            let i = pick(*h);
            let d = hs[i].clone();
            hs.push(d);
            Some("duplicate-header")
        }
    }
}

pub fn check_edit(hc: &HeaderCase, cc: &mut CaseCtx) -> CheckResult {
    let Ok(built) = hc.plan.build() else {
        cc.class("unsignable");
        return Ok(());
    };
    let a0 = analyze(&built.case);
    let o0 = exec::run(&built.case);
    if !a0.verdict().is_accept() {
        cc.class("baseline-unspecified");
        return Ok(());
    }
    if !o0.res.is_ok() {
        // The generated requests are plain in every other dimension (root path, no query, no body, no folding):
        // the reference canonical header block is the only non-trivial ingredient of the signature, so a refusal
        // means the crate canonicalises these headers differently from the form the property defines.
        check_total(&o0)?;
        return Err(Failure::new(
            "correctly-signed-headers-refused",
            format!("request signed over the reference canonical headers (signed: {:?}) is refused: {}", a0.signed_headers, o0.res.short()),
        ));
    }
    let mut case = built.case.clone();
    let Some(label) = apply(&hc.edit, &mut case.req) else {
        cc.class("edit-not-applicable");
        return Ok(());
    };
    let a = analyze(&case);
    let o = exec::run(&case);
    if let exec::Res::Unrepresentable(_) = o.res {
        cc.class("unrepresentable");
        return Ok(());
    }
    check_total(&o)?;
    cc.class(label);
    let hdrs = |r: &WireRequest| -> Vec<(String, Vec<u8>)> { r.headers.iter().map(|(n, v)| (n.clone(), v.0.clone())).collect() };
    let block_same = canonical_headers_block(&hdrs(&built.case.req), &a0.signed_headers) == canonical_headers_block(&hdrs(&case.req), &a0.signed_headers);
    match a.verdict() {
        Verdict::Accept => {
            if !block_same {
                return Err(harness_bug("model accepts although the canonical header block changed"));
            }
            cc.class("must-stay-valid");
        }
        Verdict::Reject { .. } => cc.class("must-become-invalid"),
        Verdict::Unspecified { .. } => {
            cc.unspecified = true;
            return Ok(());
        }
    }
    cc.nontrivial(digest_of(&[&built.case.req.digest().to_le_bytes(), format!("{:?}", hc.edit).as_bytes()]));
    cc.sample(json!({"edit": format!("{:?}", hc.edit), "signed_headers": a0.signed_headers, "before": built.case.req.headers.iter().map(|(n, v)| format!("{}: {}", n, v.escaped())).collect::<Vec<_>>(),
        "after": case.req.headers.iter().map(|(n, v)| format!("{}: {}", n, v.escaped())).collect::<Vec<_>>(), "model": a.verdict().short(), "crate": o.res.short()}));
    match (a.verdict(), &o.res) {
        (Verdict::Accept, exec::Res::Ok(_)) => Ok(()),
        (Verdict::Accept, other) => Err(Failure::new(&format!("edit-wrongly-invalidates:{}", label), format!("edit {:?} leaves the canonical headers unchanged, yet the crate now says {}", hc.edit, other.short()))),
        (Verdict::Reject { why, .. }, exec::Res::Ok(_)) => Err(Failure::new(&format!("edit-not-detected:{}", label), format!("edit {:?} must invalidate the signature ({}), yet the crate accepts", hc.edit, why))),
        _ => Ok(()),
    }
}
