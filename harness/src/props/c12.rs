//! C12 -- form folding merges URL and body parameters losslessly, else hashes the body as is.

use super::common::*;
use crate::engine::*;
use crate::exec;
use crate::gen::*;
use crate::model::sign::sign;
use crate::model::verify::*;
use crate::types::*;
use proptest::prelude::*;
use serde::{Deserialize, Serialize};
use serde_json::json;

pub const RULE: &str = "generated: URL parameter list x body parameter list (names shared on purpose, repeated within and across) or arbitrary body bytes x content-type spelling (exact form type, charset=utf-8/UTF8/unknown labels/other known labels/quoted, case variants, other media types, none) x server option (folding on/off) x client semantics (signed as folded: body pairs appended to the query and empty-payload hash; or signed verbatim: body hashed as is) x optional single-byte body edit after signing. Oracle (reference model): folding on and exact form type with UTF-8/absent charset => only the folded signature is accepted; folding off or another media type => only the verbatim signature is accepted and any body byte edit is refused; undecodable body / unknown charset under folding => InvalidBodyEncoding/400, malformed escapes => MalformedQueryString/400; other charsets, quoted values and case variants are unspecified. Non-trivial: parameters in both URL and body and (a name in both, or a repeated name, or client/server semantics differ, or a body edit); distinct by request digest and options.";

#[derive(Clone, Debug, Serialize, Deserialize)]
pub struct FoldCase {
    pub plan: Plan,
    /// the client signed as if the server folded (true) or hashed the body verbatim (false)
    pub client_folds: bool,
    pub server_folds: bool,
    /// raw body instead of the rendered form
    pub raw_body: Option<B>,
    pub flip: Option<u16>,
}

pub const CONTENT_TYPES: &[&str] = &[
    "application/x-www-form-urlencoded",
    "application/x-www-form-urlencoded; charset=utf-8",
    "application/x-www-form-urlencoded;charset=UTF-8",
    "application/x-www-form-urlencoded ; charset=utf8",
    "application/x-www-form-urlencoded; CHARSET=unicode-1-1-utf-8",
    "application/x-www-form-urlencoded; charset=klingon",
    "application/x-www-form-urlencoded; charset=utf-9",
    "application/x-www-form-urlencoded; charset=x-no-such-charset",
    "application/x-www-form-urlencoded; charset=iso-8859-1",
    "application/x-www-form-urlencoded; charset=windows-1252",
    "application/x-www-form-urlencoded; charset=utf-16le",
    "application/x-www-form-urlencoded; charset=shift_jis",
    "application/x-www-form-urlencoded; charset=\"utf-8\"",
    "application/x-www-form-urlencoded; boundary=x",
    "application/x-www-form-urlencoded; boundary=x; charset=utf-8",
    "Application/X-WWW-Form-Urlencoded",
    "application/x-www-form-urlencoded2",
    "application/json",
    "text/plain; charset=utf-8",
    "multipart/form-data; boundary=abc",
    "application/x-www-form-urlencode",
    "",
];

pub fn fold_case() -> BoxedStrategy<FoldCase> {
    let o = PlanOpts {
        logical: LogicalOpts { max_segments: 1, max_query: 4, max_headers: 1, body_class: 0, raw_segments: false },
        allow_s3: true,
        allow_fold: true,
        form_bodies: true,
        ..PlanOpts::default()
    };
    (
        plan(o),
        query_pairs(4),
        prop_oneof![6 => Just(0usize), 6 => 0usize..CONTENT_TYPES.len(), 1 => Just(usize::MAX)],
        any::<bool>(),
        any::<bool>(),
        prop_oneof![4 => Just(None), 1 => body_bytes(1).prop_map(|b| Some(B(b))), 1 => Just(Some(B(b"a=%zz".to_vec()))), 1 => Just(Some(B(b"a=1\n".to_vec()))), 1 => Just(Some(B(b"a=1&b=2\r\n".to_vec()))), 1 => Just(Some(B(b"\na=1".to_vec()))), 1 => Just(Some(B(b"a=%C3%28&\xc3\x28=1".to_vec()))), 1 => Just(Some(B(b"\xEF\xBB\xBFa=1".to_vec()))),
            // byte-order marks of other encodings in front of text in that encoding: not UTF-8, whatever a sniffing decoder thinks
            1 => prop_oneof![Just(Some(B(b"\xFF\xFEa\x00=\x001\x00".to_vec()))), Just(Some(B(b"\xFE\xFF\x00a\x00=\x001".to_vec()))), Just(Some(B(b"\xFF\xFE".to_vec()))), Just(Some(B(b"\xFF\xFEa=1".to_vec()))), Just(Some(B(b"\xFE\xFF".to_vec())))],
            // a `_charset_` field (what browsers fill in) is a parameter like any other: it does not choose the decoder
            1 => prop_oneof![
                Just(Some(B(b"_charset_=iso-8859-1&a=caf\xc3\xa9".to_vec()))),
                Just(Some(B(b"_charset_=iso-8859-1&a=caf\xe9".to_vec()))),
                Just(Some(B(b"a=\xe9&_charset_=windows-1252".to_vec()))),
                Just(Some(B(b"_charset_=utf-16le&a=1".to_vec()))),
                Just(Some(B(b"_charset_=utf-8&a=%C3%A9".to_vec()))),
                Just(Some(B(b"_charset_=shift_jis&a=\x83\x65".to_vec()))),
                Just(Some(B(b"charset=iso-8859-1&a=\xe9".to_vec()))),
            ],
            // bodies beyond 1 KiB / 4 KiB / 64 KiB
            1 => (prop_oneof![Just(1025usize), Just(4097), Just(8193), 1026usize..20_000, Just(65_537)], any::<u8>()).prop_map(|(n, f)| { let mut b = b"big=".to_vec(); b.extend(std::iter::repeat(b'a' + f % 26).take(n)); b.extend_from_slice(b"&last=1"); Some(B(b)) })],
        prop_oneof![4 => Just(None), 1 => any::<u16>().prop_map(Some)],
        any::<u8>(),
    )
        .prop_map(|(mut plan, form, ct, client_folds, server_folds, raw_body, flip, share)| {
            // make URL and body share names on purpose
            let mut form = form;
            if share % 2 == 0 {
                if let Some((n, _)) = plan.logical.query.first().cloned() {
                    form.push((n, B::from("from-body")));
                }
            }
            plan.form = Some(form);
            plan.ct_override = if ct == usize::MAX { None } else { Some(CONTENT_TYPES[ct].to_string()) };
            if ct == usize::MAX {
                // no content-type at all: make base() not add one
                plan.ct_override = None;
                plan.form = None;
            }
            plan.logical.headers.retain(|(n, _)| n != "content-type");
            plan.cfg.reqs = Reqs::default();
            plan.spec.signed_headers.retain(|h| h != "content-type");
            FoldCase { plan, client_folds, server_folds, raw_body, flip }
        })
        .boxed()
}

pub fn subs() -> Vec<Box<dyn AnySub>> {
    vec![
        Box::new(Sub { name: "fold", quick: 60_000, thorough: 900_000, strat: fold_case, check: check_fold }),
        // "exactly as if appended to the URL query": with query-string authentication the FIRST value of an
        // X-Amz-* parameter counts, so a decoy in a (large) form body must lose against the URL's value
        Box::new(Sub {
            name: "body-parameters-come-after-the-url's",
            quick: 15_000,
            thorough: 200_000,
            strat: || {
                let o = PlanOpts { logical: LogicalOpts { max_segments: 1, max_query: 2, max_headers: 1, body_class: 0, raw_segments: false }, allow_s3: false, plain_spelling: true, query_only: true, ..PlanOpts::default() };
                (plan(o), 3usize..12, any::<u16>(), any::<bool>(), any::<bool>())
                    .prop_map(|(mut p, n, k, first, before)| {
                        p.cfg.fold = true;
                        p.cfg.reqs = Reqs::default();
                        p.form = Some((0..n).map(|i| (B::from(format!("field{}", i)), B::from("v"))).collect());
                        p.spec.signed_headers.retain(|h| h != "content-type");
                        // one of the query-carrier duplicate kinds (credential, date, signed headers, signature, token, algorithm), decoy in the body
                        super::c19::make_case_kind(p, 5 + (k % 6) as usize, first, before, true, 60)
                    })
                    .boxed()
            },
            check: super::c19::check_dup,
        }),
        // (last: the log level is process-wide) the same while a logger renders every record down to trace level
        Box::new(Sub {
            name: "fold-with-trace-logging",
            quick: 15_000,
            thorough: 200_000,
            strat: fold_case,
            check: |fc, cc| {
                exec::enable_log_capture();
                exec::with_logs(|| check_fold(fc, cc)).0.map_err(|f| Failure::new(&format!("{}:trace-logging", f.sig), f.msg))
            },
        }),
    ]
}

pub fn check_fold(fc: &FoldCase, cc: &mut CaseCtx) -> CheckResult {
    let p = &fc.plan;
    let mut base = p.base();
    if let Some(b) = &fc.raw_body {
        base.body = b.clone();
    }
    let mut client_cfg = p.cfg.clone();
    client_cfg.fold = fc.client_folds;
    let mut server_cfg = p.cfg.clone();
    server_cfg.fold = fc.server_folds;
    let mut spec = p.spec.clone();
    spec.auth_in_body = false;
    let Ok(signed) = sign(&base, &client_cfg, &spec) else {
        cc.class("unsignable-under-client-semantics");
        return Ok(());
    };
    let mut req = signed.req;
    if let Some(f) = fc.flip {
        if req.body.0.is_empty() {
            return Ok(());
        }
        let j = pick_idx(f, req.body.0.len());
        req.body.0[j] ^= 0x01;
    }
    let case = Case { req, cfg: server_cfg, prov: p.provider() };
    let a = analyze(&case);
    let o = exec::run(&case);
    if let exec::Res::Unrepresentable(_) = o.res {
        cc.class("unrepresentable");
        return Ok(());
    }
    let url_names: Vec<&Vec<u8>> = a.url_pairs.iter().map(|(n, _)| n).collect();
    let body_names: Vec<&Vec<u8>> = a.body_pairs.iter().map(|(n, _)| n).collect();
    let shared = url_names.iter().any(|n| body_names.contains(n));
    let repeated = a.merged_pairs.iter().enumerate().any(|(i, (n, _))| a.merged_pairs[..i].iter().any(|(m, _)| m == n));
    cc.class(match body_mode(&case.req, case.cfg.fold) {
        BodyMode::Verbatim => "server-verbatim",
        BodyMode::FoldUtf8 => "server-folds",
        BodyMode::BadCharset(_) => "unknown-charset",
        BodyMode::Unspecified(_) => "charset-or-type-unspecified",
    });
    cc.class(if fc.client_folds { "client-signed-folded" } else { "client-signed-verbatim" });
    cc.class_if(shared, "name-in-url-and-body");
    cc.class_if(fc.flip.is_some(), "body-byte-edit");
    match a.verdict() {
        Verdict::Accept => cc.class("must-accept"),
        Verdict::Reject { kinds, .. } => cc.class(match kinds[0] {
            Kind::InvalidBodyEncoding => "must-reject-body-encoding",
            Kind::MalformedQueryString => "must-reject-malformed",
            _ => "must-reject-signature",
        }),
        Verdict::Unspecified { .. } => {
            cc.unspecified = true;
        }
    }
    if a.verdict().is_specified() && (!a.url_pairs.is_empty() && !a.body_pairs.is_empty() && (shared || repeated) || fc.client_folds != fc.server_folds || fc.flip.is_some()) {
        cc.nontrivial(digest_of(&[&case.req.digest().to_le_bytes(), &[fc.client_folds as u8, fc.server_folds as u8, case.cfg.s3 as u8]]));
        cc.sample(case_sample(&case, json!({"client_signed_as_folded": fc.client_folds, "server_folds": fc.server_folds, "model": a.verdict().short(), "crate": o.res.short()})));
    }
    check_against_model(&a, &o)
}
