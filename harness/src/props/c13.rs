//! C13 -- errors follow the documented precedence and a fixed kind/code/status taxonomy.

use super::common::*;
use crate::engine::*;
use crate::exec;
use crate::gen::*;
use crate::model::sign::{attach, sign_full};
use crate::model::verify::*;
use crate::types::*;
use proptest::prelude::*;
use serde::{Deserialize, Serialize};
use serde_json::json;

pub const RULE: &str = "generated: a valid request on either carrier plus a non-empty SET of defects, each tagged with its documented rule (1 path: bad escape / above root / relative target; 4 query: bad escape in URL or folded body, undecodable body, unknown charset; 5 no carrier / both carriers; 6 wrong algorithm; 7 parameter without '='; 8 each missing parameter; 9 host unsigned / declared requirement unmet; 10 malformed date; 11 expired; 12 not yet valid; 13 credential arity; 14 each scope component; 15 provider error of each kind / foreign error; 16 wrong signature). Enumerated: every single defect and every pair (quick) / triple (thorough) of defect classes on both carriers. Oracle: (i) the error is a SignatureError whose KIND is the documented kind of the lowest-ranked defect present (reference model); (ii) its message skeleton (quoted substrings and digit runs blanked) equals that of the same request carrying only the lowest-ranked rule's defects, which separates rules that share a kind; (iii) kind -> (code, status) equals the documented table, also on directly constructed values of all 12 variants; status never 2xx/3xx; 500 only for provider infrastructure failures. Non-trivial: >= 2 defects of different ranks; distinct by (carrier, defect set).";

#[derive(Clone, Copy, Debug, Serialize, Deserialize, PartialEq, Eq, PartialOrd, Ord, Hash)]
pub enum Defect {
    PathBadEscape,
    PathAboveRoot,
    PathRelative,
    QueryBadEscape,
    BodyBadEscape,
    BodyUndecodable,
    BodyUnknownCharset,
    NoCarrier,
    BothCarriers,
    /// the other carrier's marker is present but EMPTY (`?X-Amz-Algorithm=` next to an Authorization header)
    BothCarriersEmptyAlgorithm,
    WrongAlgorithm,
    ParamNoEquals,
    MissingCredential,
    MissingSignedHeaders,
    MissingSignature,
    MissingDate,
    HostUnsigned,
    RequirementUnmet,
    /// a header matching a declared (mixed-case) prefix is present but not signed
    PrefixRequirementUnmet,
    MalformedDate,
    Expired,
    Future,
    Arity4,
    Arity6,
    WrongRegion,
    WrongService,
    WrongTerminator,
    WrongScopeDate,
    ProviderInvalidToken,
    ProviderExpired,
    ProviderForeign,
    ProviderNotReadyErr,
    WrongSignature,
    SignatureTooLong,
    SignatureTooShort,
    SignatureEmpty,
    SignatureNonHex,
    SignatureUpperWrong,
}

pub const ALL_DEFECTS: &[Defect] = &[
    Defect::PathBadEscape,
    Defect::PathAboveRoot,
    Defect::PathRelative,
    Defect::QueryBadEscape,
    Defect::BodyBadEscape,
    Defect::BodyUndecodable,
    Defect::BodyUnknownCharset,
    Defect::NoCarrier,
    Defect::BothCarriers,
    Defect::BothCarriersEmptyAlgorithm,
    Defect::WrongAlgorithm,
    Defect::ParamNoEquals,
    Defect::MissingCredential,
    Defect::MissingSignedHeaders,
    Defect::MissingSignature,
    Defect::MissingDate,
    Defect::HostUnsigned,
    Defect::RequirementUnmet,
    Defect::PrefixRequirementUnmet,
    Defect::MalformedDate,
    Defect::Expired,
    Defect::Future,
    Defect::Arity4,
    Defect::Arity6,
    Defect::WrongRegion,
    Defect::WrongService,
    Defect::WrongTerminator,
    Defect::WrongScopeDate,
    Defect::ProviderInvalidToken,
    Defect::ProviderExpired,
    Defect::ProviderForeign,
    Defect::ProviderNotReadyErr,
    Defect::WrongSignature,
    Defect::SignatureTooLong,
    Defect::SignatureTooShort,
    Defect::SignatureEmpty,
    Defect::SignatureNonHex,
    Defect::SignatureUpperWrong,
];

impl Defect {
    pub fn rank(self) -> u8 {
        use Defect::*;
        match self {
            PathBadEscape | PathAboveRoot | PathRelative => R_PATH,
            QueryBadEscape | BodyBadEscape | BodyUndecodable | BodyUnknownCharset => R_QUERY,
            NoCarrier | BothCarriers | BothCarriersEmptyAlgorithm => R_CARRIER,
            WrongAlgorithm => R_ALGORITHM,
            ParamNoEquals => R_SYNTAX,
            MissingCredential | MissingSignedHeaders | MissingSignature | MissingDate => R_MISSING,
            HostUnsigned | RequirementUnmet | PrefixRequirementUnmet => R_SIGNED_HEADERS,
            MalformedDate => R_DATE,
            Expired => R_EXPIRED,
            Future => R_FUTURE,
            Arity4 | Arity6 => R_ARITY,
            WrongRegion | WrongService | WrongTerminator | WrongScopeDate => R_SCOPE,
            ProviderInvalidToken | ProviderExpired | ProviderForeign | ProviderNotReadyErr => R_PROVIDER,
            WrongSignature | SignatureTooLong | SignatureTooShort | SignatureEmpty | SignatureNonHex | SignatureUpperWrong => R_SIGNATURE,
        }
    }
}

#[derive(Clone, Debug, Serialize, Deserialize)]
pub struct DefectCase {
    pub query_carrier: bool,
    pub defects: Vec<Defect>,
    /// small variation of the underlying valid request
    pub variant: u8,
}

pub fn subs() -> Vec<Box<dyn AnySub>> {
    vec![
        Box::new(EnumSub { name: "combinations", exhaustive: true, list: combos, check: check_defects }),
        Box::new(Sub {
            name: "random-subsets",
            quick: 20_000,
            thorough: 400_000,
            strat: || {
                (any::<bool>(), proptest::collection::vec(any::<u16>(), 1..6), any::<u8>())
                    .prop_map(|(q, sel, variant)| {
                        let mut d: Vec<Defect> = sel.into_iter().map(|x| ALL_DEFECTS[pick_idx(x, ALL_DEFECTS.len())]).collect();
                        d.sort();
                        d.dedup();
                        DefectCase { query_carrier: q, defects: d, variant }
                    })
                    .boxed()
            },
            check: check_defects,
        }),
        Box::new(EnumSub { name: "taxonomy", exhaustive: true, list: |_| Kind::ALL.to_vec(), check: check_kind_table }),
    ]
}

fn combos(t: Tier) -> Vec<DefectCase> {
    let mut out = Vec::new();
    let n = ALL_DEFECTS.len();
    for q in [false, true] {
        for i in 0..n {
            for v in [0u8, 0x04, 0x24, 0x44, 0x84, 0xC4, 0x02, 0x03, 0x10, 0x20, 0x08, 0x48] {
                out.push(DefectCase { query_carrier: q, defects: vec![ALL_DEFECTS[i]], variant: v });
            }
            for j in (i + 1)..n {
                out.push(DefectCase { query_carrier: q, defects: vec![ALL_DEFECTS[i], ALL_DEFECTS[j]], variant: (i + j) as u8 });
                if t == Tier::Thorough {
                    for k in (j + 1)..n {
                        out.push(DefectCase { query_carrier: q, defects: vec![ALL_DEFECTS[i], ALL_DEFECTS[j], ALL_DEFECTS[k]], variant: (i + j + k) as u8 });
                    }
                }
            }
        }
    }
    out
}

/// Build the request carrying exactly `defects`.
pub fn build(dc: &DefectCase, defects: &[Defect]) -> Case {
    use Defect::*;
    let has = |d: Defect| defects.contains(&d);
    let carrier = if dc.query_carrier { Carrier::Query } else { Carrier::Header };
    let mut plan = simple_plan(carrier);
    // variations of the underlying valid request, driven by the variant byte
    if dc.variant & 0x10 != 0 {
        plan.spec.token = Some("tok/en+1=".into());
        plan.entry.token = plan.spec.token.clone();
    }
    if dc.variant & 0x20 != 0 {
        // request a few minutes before midnight UTC, server a few minutes after: dates differ inside the window
        let t = crate::model::time::Instant::from_civil(2015, 8, 30, 23, 58, 0, 0);
        plan = plan.with_time(t, crate::model::time::TsStyle::BASIC_Z);
        plan.cfg.now = t.add_nanos(300_000_000_000);
    }
    if carrier == Carrier::Header {
        plan.spec.sep = (dc.variant >> 6) + if dc.variant & 0x08 != 0 { 2 } else { 0 };
    }
    plan.cfg.fold = true;
    plan.cfg.s3 = dc.variant & 0x80 != 0 && !has(PathAboveRoot); // (S3 mode keeps ".." segments: no defect there)
    plan.cfg.reqs = Reqs { always: vec!["X-Must".into()], if_in_request: vec!["X-Maybe".into()], prefixes: vec!["X-Pre-".into()], route: dc.variant % 5 };
    plan.logical.headers.push(("x-must".into(), vec![B::from("1")]));
    // (required to be signed IF carried; carried with an empty value in some variants)
    plan.logical.headers.push(("x-maybe".into(), vec![if dc.variant & 0x08 != 0 { B::default() } else { B::from("m") }]));
    if dc.variant % 7 == 3 {
        // a timestamp with a zone offset: the request's UTC date and time differ from what the text shows
        let st = crate::model::time::TsStyle { extended: true, offset_min: Some(if dc.variant & 1 == 0 { 330 } else { -480 }), frac_digits: 0, comma: false, extra: 0 };
        let (i, n) = (plan.instant, plan.cfg.now);
        plan = plan.with_time(i, st);
        plan.cfg.now = n;
    }
    plan.logical.headers.push(("x-pre-one".into(), vec![B::from("p")]));
    plan.logical.method = if dc.variant % 2 == 0 { "POST".into() } else { "GET".into() };
    plan.form = Some(vec![(B::from("f"), B::from("1"))]);
    let mut base = plan.base();
    // --- rank 1 / 4 : request target and body
    if has(PathBadEscape) {
        let bad = ["%zz", "%+1", "%-1", "%1", "%g0", "%0g", "%+f", "%%", "%0x", "%x0"][(dc.variant as usize / 3) % 10];
        base.uri = base.uri.replacen("/p", &format!("/p{}", bad), 1);
    }
    if has(PathAboveRoot) {
        base.uri = base.uri.replacen("/p", "/../p", 1);
    }
    if has(QueryBadEscape) {
        let bad = ["%4", "%+1", "%-1", "%zz", "%+f", "%g0", "%", "%0x"][(dc.variant as usize / 5) % 8];
        base.uri = format!("{}&bad={}", base.uri, bad);
    }
    if has(BodyBadEscape) {
        let bad = ["%G1", "%+1", "%-1", "%+f", "%1", "%"][(dc.variant as usize / 7) % 6];
        base.body = B(format!("f={}", bad).into_bytes());
    }
    if has(BodyUndecodable) {
        base.body = B(b"f=\xff\xfe".to_vec());
    }
    if has(BodyUnknownCharset) {
        for (n, v) in base.headers.iter_mut() {
            if n.eq_ignore_ascii_case("content-type") {
                *v = B::from("application/x-www-form-urlencoded; charset=klingon");
            }
        }
    }
    // --- signing inputs
    let mut spec = plan.spec.clone();
    spec.signed_headers = vec!["host".into(), "x-maybe".into(), "x-must".into(), "x-pre-one".into()];
    if carrier == Carrier::Header {
        spec.signed_headers.push("x-amz-date".into());
    }
    if has(HostUnsigned) {
        if dc.variant & 0x0C == 0x04 {
            // an HTTP/2 or HTTP/3 request as a server hands it over: no Host header field, the authority in the target
            base.headers.retain(|(n, _)| !n.eq_ignore_ascii_case("host"));
            base.version = if dc.variant & 1 == 0 { 2 } else { 3 };
            base.uri = format!("https://example.amazonaws.com{}", base.uri);
        }
        spec.signed_headers.retain(|h| h != "host");
    }
    if has(RequirementUnmet) {
        // the always-required header, or the one required if carried (carried with or without a value)
        let which = if dc.variant & 0x40 != 0 { "x-maybe" } else { "x-must" };
        spec.signed_headers.retain(|h| h != which);
    }
    if has(PrefixRequirementUnmet) {
        spec.signed_headers.retain(|h| h != "x-pre-one");
    }
    if has(MalformedDate) {
        spec.ts_text = "20150830T123600".into(); // no zone designator
    }
    let date = plan.instant.date8();
    let mut parts = vec!["AKIDEXAMPLE".to_string(), date.clone(), plan.cfg.region.clone(), plan.cfg.service.clone(), "aws4_request".to_string()];
    if has(WrongRegion) {
        parts[2] = "eu-west-9".into();
    }
    if has(WrongService) {
        parts[3] = "other".into();
    }
    if has(WrongTerminator) {
        parts[4] = "aws4_reques".into();
    }
    if has(WrongScopeDate) {
        // the day before, or (when request and server sit on different sides of midnight) the server's own date
        parts[1] = if dc.variant & 0x24 == 0x24 { plan.cfg.now.date8() } else { "20150829".into() };
    }
    if has(Arity4) {
        parts.remove(4);
    }
    if has(Arity6) {
        // a surplus component behind the scope, or between the access key and an otherwise correct scope
        if dc.variant & 0x02 != 0 {
            parts.insert(1, "extra".into());
            if dc.variant & 0x01 != 0 {
                parts.insert(1, "more".into());
            }
        } else {
            parts.push("extra".into());
        }
    }
    let credential = parts.join("/");
    let g = |i: usize| parts.get(i).cloned().unwrap_or_default();
    let mut req = match sign_full(&base, &plan.cfg, &spec, &credential, (&g(1), &g(2), &g(3))) {
        Ok(s) => s.req,
        Err(_) => attach(&base, &plan.cfg, &spec, &credential, &"5".repeat(64)),
    };
    // --- post-signing edits of the authentication material
    let edit_auth = |req: &mut WireRequest, f: &dyn Fn(&str) -> String| {
        for (n, v) in req.headers.iter_mut() {
            if n.eq_ignore_ascii_case("authorization") {
                *v = B::from(f(&latin1(&v.0)));
            }
        }
    };
    let drop_param = |req: &mut WireRequest, name: &str| {
        let (p, q) = match req.uri.find('?') {
            Some(i) => (req.uri[..i].to_string(), req.uri[i + 1..].to_string()),
            None => return,
        };
        let kept: Vec<&str> = q.split('&').filter(|x| !x.starts_with(&format!("{}=", name))).collect();
        req.uri = format!("{}?{}", p, kept.join("&"));
    };
    let drop_auth_param = |v: &str, name: &str| -> String {
        let (alg, rest) = v.split_once(' ').unwrap_or((v, ""));
        let kept: Vec<&str> = rest.split(',').filter(|x| !x.trim().starts_with(&format!("{}=", name))).collect();
        format!("{} {}", alg, kept.join(","))
    };
    // signature-shaped defects: all are refused by the final comparison only
    let sig_edit: Option<Box<dyn Fn(&str) -> String>> = if has(WrongSignature) {
        Some(Box::new(|s: &str| format!("{}{}", if s.starts_with('0') { "1" } else { "0" }, &s[1..])))
    } else if has(SignatureTooLong) {
        Some(Box::new(|s: &str| format!("{}0", s)))
    } else if has(SignatureTooShort) {
        Some(Box::new(|s: &str| s[..s.len().saturating_sub(1)].to_string()))
    } else if has(SignatureEmpty) {
        Some(Box::new(|_s: &str| String::new()))
    } else if has(SignatureNonHex) {
        Some(Box::new(|s: &str| "Z".repeat(s.len())))
    } else if has(SignatureUpperWrong) {
        Some(Box::new(|s: &str| format!("{}{}", if s.starts_with('A') { "B" } else { "A" }, &s[1..]).to_ascii_uppercase()))
    } else {
        None
    };
    if let Some(f) = sig_edit {
        if carrier == Carrier::Header {
            edit_auth(&mut req, &|v| {
                let p = v.find("Signature=").unwrap() + 10;
                let e = v[p..].find(',').map(|x| p + x).unwrap_or(v.len());
                format!("{}{}{}", &v[..p], f(&v[p..e]), &v[e..])
            });
        } else {
            let p = req.uri.find("X-Amz-Signature=").unwrap() + 16;
            let e = req.uri[p..].find('&').map(|x| p + x).unwrap_or(req.uri.len());
            req.uri = format!("{}{}{}", &req.uri[..p], f(&req.uri[p..e]), &req.uri[e..]);
        }
    }
    match carrier {
        Carrier::Header => {
            if has(MissingCredential) {
                edit_auth(&mut req, &|v| drop_auth_param(v, "Credential"));
            }
            if has(MissingSignedHeaders) {
                edit_auth(&mut req, &|v| drop_auth_param(v, "SignedHeaders"));
            }
            if has(MissingSignature) {
                edit_auth(&mut req, &|v| drop_auth_param(v, "Signature"));
            }
            if has(MissingDate) {
                req.headers.retain(|(n, _)| !n.eq_ignore_ascii_case("x-amz-date"));
            }
            if has(ParamNoEquals) {
                edit_auth(&mut req, &|v| format!("{}, Bogus", v));
            }
            if has(WrongAlgorithm) {
                if dc.variant & 0x04 != 0 {
                    // the FIRST Authorization header is of another scheme; the SigV4 one follows it
                    let other = ["Basic dXNlcjpwYXNz", "AWS3 AWSAccessKeyId=AKID,Algorithm=HmacSHA256,Signature=abc=", "Bearer token=abc", "AWS4-HMAC-SHA512 Credential=x"][(dc.variant >> 6) as usize % 4];
                    let at = req.headers.iter().position(|(n, _)| n.eq_ignore_ascii_case("authorization")).unwrap_or(0);
                    req.headers.insert(at, ("Authorization".into(), B::from(other)));
                } else if dc.variant & 0x0C == 0x08 {
                    // the right token, but a TAB instead of the space that ends it (rule 6a: up to the first space)
                    edit_auth(&mut req, &|v| v.replacen("AWS4-HMAC-SHA256 ", "AWS4-HMAC-SHA256\t", 1));
                } else {
                    edit_auth(&mut req, &|v| v.replacen("AWS4-HMAC-SHA256", "AWS4-HMAC-SHA512", 1));
                }
            }
            if has(BothCarriers) {
                req.uri = format!("{}&X-Amz-Algorithm=AWS4-HMAC-SHA256", req.uri);
            }
            if has(BothCarriersEmptyAlgorithm) {
                // the marker of the other carrier with an empty or foreign value
                let v = ["=", "", "=AWS4-HMAC-SHA512", "=aws4-hmac-sha256x", "=&X-Amz-Algorithm=AWS4-HMAC-SHA256"][(dc.variant % 5) as usize];
                req.uri = format!("{}&X-Amz-Algorithm{}", req.uri, v);
            }
            if has(NoCarrier) {
                req.headers.retain(|(n, _)| !n.eq_ignore_ascii_case("authorization"));
            }
        }
        Carrier::Query => {
            if has(MissingCredential) {
                drop_param(&mut req, "X-Amz-Credential");
            }
            if has(MissingSignedHeaders) {
                drop_param(&mut req, "X-Amz-SignedHeaders");
            }
            if has(MissingSignature) {
                drop_param(&mut req, "X-Amz-Signature");
            }
            if has(MissingDate) {
                drop_param(&mut req, "X-Amz-Date");
            }
            if has(WrongAlgorithm) {
                req.uri = req.uri.replacen("X-Amz-Algorithm=AWS4-HMAC-SHA256", "X-Amz-Algorithm=AWS4-HMAC-SHA512", 1);
            }
            if has(BothCarriers) {
                req.headers.push(("Authorization".into(), B::from("AWS4-HMAC-SHA256 Credential=a/b/c/d/e, SignedHeaders=host, Signature=00")));
            }
            if has(NoCarrier) {
                drop_param(&mut req, "X-Amz-Algorithm");
            }
        }
    }
    if has(PathRelative) {
        req.uri = "*".into();
        if carrier == Carrier::Query {
            // "*" cannot carry a query string: the query-borne authentication disappears with it
        }
    }
    let mut cfg = plan.cfg.clone();
    // outside the window by a whole second, or -- with a server clock that has a sub-second part -- by 0.3 s
    let beyond: i128 = if dc.variant & 0x04 != 0 { 900_300_000_000 } else { 901_000_000_000 };
    if has(Expired) {
        cfg.now = plan.instant.add_nanos(beyond);
    }
    if has(Future) {
        cfg.now = plan.instant.add_nanos(-beyond);
    }
    let mut prov = plan.provider();
    if has(ProviderInvalidToken) {
        prov.answer = Answer::SigErr(Kind::InvalidClientTokenId, "no such key".into());
    }
    if has(ProviderExpired) {
        prov.answer = Answer::SigErr(Kind::ExpiredToken, "token expired".into());
    }
    if has(ProviderForeign) {
        prov.answer = Answer::Foreign(format!("database down ({})", dc.variant % 8));
    }
    if has(ProviderNotReadyErr) {
        prov.ready_err = Some(Answer::Foreign(format!("pool exhausted ({})", (dc.variant / 8) % 8)));
    }
    Case { req, cfg, prov }
}

pub fn skeleton(msg: &str) -> String {
    let mut out = String::new();
    let mut in_quote = false;
    let mut last_digit = false;
    for c in msg.chars() {
        if c == '\'' {
            in_quote = !in_quote;
            out.push('\'');
            last_digit = false;
            continue;
        }
        if in_quote {
            continue;
        }
        if c.is_ascii_digit() {
            if !last_digit {
                out.push('#');
            }
            last_digit = true;
        } else {
            out.push(c);
            last_digit = false;
        }
    }
    out
}

pub fn check_defects(dc: &DefectCase, cc: &mut CaseCtx) -> CheckResult {
    use Defect::*;
    let mut defects = dc.defects.clone();
    defects.sort();
    defects.dedup();
    // contradictory pairs are reduced deterministically
    if defects.contains(&Expired) && defects.contains(&Future) {
        defects.retain(|d| *d != Future);
    }
    if defects.contains(&Arity4) && defects.contains(&Arity6) {
        defects.retain(|d| *d != Arity6);
    }
    if defects.contains(&NoCarrier) && defects.contains(&BothCarriers) {
        defects.retain(|d| *d != BothCarriers);
    }
    if defects.contains(&NoCarrier) || defects.contains(&BothCarriers) {
        defects.retain(|d| *d != BothCarriersEmptyAlgorithm);
    }
    reduce_signature_defects(&mut defects);
    if dc.query_carrier {
        // the query carrier has no free-form parameter list; an empty algorithm there is the algorithm defect
        defects.retain(|d| *d != ParamNoEquals && *d != BothCarriersEmptyAlgorithm);
    }
    if defects.is_empty() {
        return Ok(());
    }
    let case = build(dc, &defects);
    let a = analyze(&case);
    let o = exec::run(&case);
    if let exec::Res::Unrepresentable(_) = o.res {
        cc.class("unrepresentable");
        return Ok(());
    }
    check_total(&o)?;
    let ranks: Vec<u8> = defects.iter().map(|d| d.rank()).collect();
    let distinct_ranks = {
        let mut r = ranks.clone();
        r.sort();
        r.dedup();
        r.len()
    };
    cc.class_if(dc.query_carrier, "query-carrier");
    if !a.verdict().is_specified() {
        cc.unspecified = true;
        return Ok(());
    }
    if a.verdict().is_accept() {
        return Err(harness_bug(format!("model accepts a request with defects {:?}", defects)));
    }
    if distinct_ranks >= 2 {
        cc.class("multi-rank");
        cc.nontrivial(digest_of(&[format!("{:?}{}", defects, dc.query_carrier).as_bytes()]));
        cc.sample(json!({"carrier": if dc.query_carrier { "query" } else { "header" }, "defects": format!("{:?}", defects), "model": a.verdict().short(), "crate": o.res.short()}));
    }
    // (i) + (iii): kind of the earliest failing rule, taxonomy
    match &o.res {
        exec::Res::Err(e) => {
            check_taxonomy(e)?;
            if e.status / 100 == 2 || e.status / 100 == 3 {
                return Err(Failure::new("error-with-success-status", format!("status {}", e.status)));
            }
            if e.status == 500 && !(defects.contains(&ProviderForeign) || defects.contains(&ProviderNotReadyErr)) {
                return Err(Failure::new("500-without-provider-failure", format!("defects {:?} gave 500: {}", defects, e.msg)));
            }
        }
        exec::Res::Ok(_) => {}
        _ => {}
    }
    check_against_model(&a, &o).map_err(|f| Failure::new(&format!("precedence:{}", f.sig), format!("defects {:?}: {}", defects, f.msg)))?;
    // (ii) same message skeleton as the request with only the lowest-ranked rule's defects
    let Verdict::Reject { rank, .. } = a.verdict() else { return Ok(()) };
    let min_defects: Vec<Defect> = defects.iter().cloned().filter(|d| d.rank() == *rank).collect();
    if !min_defects.is_empty() && min_defects.len() < defects.len() {
        let alone = build(dc, &min_defects);
        let a2 = analyze(&alone);
        if a2.verdict().rank() == *rank {
            let o2 = exec::run(&alone);
            if let (exec::Res::Err(e1), exec::Res::Err(e2)) = (&o.res, &o2.res) {
                if e1.kind == e2.kind && skeleton(&e1.msg) != skeleton(&e2.msg) {
                    return Err(Failure::new(
                        "precedence:message-of-later-rule",
                        format!("defects {:?}: message {:?} is not that of rule {} alone ({:?})", defects, e1.msg, rank, e2.msg),
                    ));
                }
            }
        }
    }
    Ok(())
}

/// kind -> code/status on directly constructed values of every variant.
pub fn check_kind_table(k: &Kind, cc: &mut CaseCtx) -> CheckResult {
    // every payload variety of the two wrapping kinds: each io::ErrorKind, each thing an internal error may wrap
    let varieties = match k {
        Kind::IO => exec::IO_KINDS.len(),
        Kind::InternalServiceError => 6,
        _ => 1,
    };
    for v in 0..varieties {
        let msg = format!("message ({})", v);
        let info = exec::err_info(&exec::make_sig_err(*k, &msg));
        if info.kind != Some(*k) {
            return Err(harness_bug("kind mapping"));
        }
        check_taxonomy(&info).map_err(|f| Failure::new(&f.sig, format!("{} [payload variety {}: {}]", f.msg, v, info.debug)))?;
        let boxed: Box<dyn std::error::Error + Send + Sync> = Box::new(exec::make_sig_err(*k, &msg));
        let back = exec::err_info(&scratchstack_aws_signature::SignatureError::from(boxed));
        if back.kind != info.kind || back.debug != info.debug || back.code != info.code || back.status != info.status {
            return Err(Failure::new("error-conversion-changes-kind", format!("{} converted from a boxed error became {}", info.debug, back.debug)));
        }
        cc.nontrivial(digest_of(&[format!("{:?}{}", k, v).as_bytes()]));
    }
    for v in 0..8 {
        let conv = scratchstack_aws_signature::SignatureError::from(exec::foreign_error(&format!("x ({})", v)));
        let info = exec::err_info(&conv);
        if info.kind != Some(Kind::InternalServiceError) {
            return Err(Failure::new("foreign-error-conversion", format!("foreign error type {} became {:?}", v, info.kind)));
        }
        check_taxonomy(&info)?;
    }
    let e = exec::make_sig_err(*k, "message");
    let info = exec::err_info(&e);
    cc.class("constructed");
    cc.nontrivial(digest_of(&[format!("{:?}", k).as_bytes()]));
    cc.sample(json!({"kind": format!("{:?}", k), "code": info.code, "status": info.status}));
    if info.kind != Some(*k) {
        return Err(harness_bug("kind mapping"));
    }
    check_taxonomy(&info)?;
    // conversions: a boxed SignatureError converts back unchanged, anything else becomes an internal failure
    let boxed: Box<dyn std::error::Error + Send + Sync> = Box::new(exec::make_sig_err(*k, "message"));
    let back = scratchstack_aws_signature::SignatureError::from(boxed);
    if exec::kind_of(&back) != *k {
        return Err(Failure::new("error-conversion-changes-kind", format!("{:?} became {:?}", k, exec::kind_of(&back))));
    }
    let foreign: Box<dyn std::error::Error + Send + Sync> = Box::new(exec::ForeignError("x".into()));
    let conv = scratchstack_aws_signature::SignatureError::from(foreign);
    if exec::kind_of(&conv) != Kind::InternalServiceError {
        return Err(Failure::new("foreign-error-conversion", format!("foreign error became {:?}", exec::kind_of(&conv))));
    }
    Ok(())
}

/// at most one signature-shaped defect per request
pub fn reduce_signature_defects(defects: &mut Vec<Defect>) {
    let mut seen = false;
    defects.retain(|d| {
        if d.rank() == R_SIGNATURE {
            if seen {
                return false;
            }
            seen = true;
        }
        true
    });
}
