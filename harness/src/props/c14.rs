//! C14 -- key provider is consulted once, last, and its failures never authenticate (stateful).

use super::c13::{build, Defect, DefectCase, ALL_DEFECTS};
use super::common::*;
use crate::engine::*;
use crate::exec::{self, ProvEvent};
use crate::model::verify::*;
use crate::types::*;
use proptest::prelude::*;
use serde::{Deserialize, Serialize};
use serde_json::json;

pub const RULE: &str = "generated: HISTORIES of 1-40 validations against ONE scripted provider instance (a hand-written tower::Service logging every poll_ready / call / future poll; the harness owns the executor, so readiness and pending states are scheduled by the generator). Each step = (request: valid or carrying 1-2 defects at any rule, on either carrier) x (poll_ready: Pending k1 times then Ready, or Ready at once, or Err; call future: Pending k2 times then Ok(key) | Err(each SignatureError kind) | Err(foreign error)). Invariants after every step: call count 0 or 1 and equal to the model's (0 whenever the request fails any of rules 1-13 or readiness fails); call never happens before poll_ready returned Ready in the same validation; arguments equal the model's (access key, token, UTC date, server region, service); a provider SignatureError comes back with the same kind and message, a foreign error as InternalServiceError/500; no Err / pending / not-ready path yields Ok; the outcome of step i equals the outcome of the same step run alone on a fresh provider (no state leaks). A step may also be ABANDONED: its future is polled k<8 times and dropped; the provider contract must hold for what it saw and every later step must be unaffected. Non-trivial: history containing a defective request, a delayed readiness or answer, and an error answer; distinct by history digest.";

#[derive(Clone, Debug, Serialize, Deserialize)]
pub struct Step {
    pub req: DefectCase,
    pub ready_pending: u8,
    pub ready_err: Option<u8>,
    pub call_pending: u8,
    /// 0 = Lookup; 1..=12 = SignatureError kind; 13 = foreign
    pub answer: u8,
    pub wrong_secret: bool,
    /// the caller gives up: the validation future is polled this many times at most and then dropped
    #[serde(default)]
    pub abandon_after: Option<u8>,
}

#[derive(Clone, Debug, Serialize, Deserialize)]
pub struct History {
    pub steps: Vec<Step>,
}

pub fn step() -> BoxedStrategy<Step> {
    (
        any::<bool>(),
        prop_oneof![3 => Just(vec![]), 3 => proptest::collection::vec(any::<u16>(), 1..3)],
        any::<u8>(),
        prop_oneof![3 => Just(0u8), 2 => 1u8..6],
        prop_oneof![8 => Just(None), 1 => (0u8..14).prop_map(Some)],
        prop_oneof![3 => Just(0u8), 2 => 1u8..6],
        prop_oneof![5 => Just(0u8), 3 => 1u8..14],
        prop_oneof![6 => Just(false), 1 => Just(true)],
        prop_oneof![9 => Just(None), 1 => (0u8..8).prop_map(Some)],
    )
        .prop_map(|(q, sel, variant, ready_pending, ready_err, call_pending, answer, wrong_secret, abandon_after)| {
            let mut d: Vec<Defect> = sel
                .into_iter()
                .map(|x| ALL_DEFECTS[pick_idx(x, ALL_DEFECTS.len())])
                // provider behaviour is scripted per step, not through the defect list
                .filter(|d| d.rank() != R_PROVIDER)
                .collect();
            d.sort();
            d.dedup();
            Step { req: DefectCase { query_carrier: q, defects: d, variant }, ready_pending, ready_err, call_pending, answer, wrong_secret, abandon_after }
        })
        .boxed()
}

pub fn subs() -> Vec<Box<dyn AnySub>> {
    vec![
        Box::new(Sub {
            name: "histories",
            quick: 4_000,
            thorough: 60_000,
            strat: || proptest::collection::vec(step(), 1..40).prop_map(|steps| History { steps }).boxed(),
            check: check_history,
        }),
        Box::new(Sub {
            name: "fn-adapter-histories",
            quick: 3_000,
            thorough: 40_000,
            strat: || proptest::collection::vec(step(), 1..20).prop_map(|steps| History { steps }).boxed(),
            check: check_adapter_history,
        }),
    ]
}

/// The same discipline through the crate's own `service_for_signing_key_fn` adapter: one closure-backed
/// service shared by the whole history, counting its invocations.
pub fn check_adapter_history(h: &History, cc: &mut CaseCtx) -> CheckResult {
    use scratchstack_aws_signature::{service_for_signing_key_fn, sigv4_validate_request, GetSigningKeyRequest, GetSigningKeyResponse, KSecretKey, SignatureOptions, NO_ADDITIONAL_SIGNED_HEADERS};
    use std::str::FromStr;
    use std::sync::{Arc, Mutex};
    let log: Arc<Mutex<Vec<KeyQuery>>> = Arc::new(Mutex::new(Vec::new()));
    let behaviour: Arc<Mutex<(u8, String)>> = Arc::new(Mutex::new((0, String::new())));
    let (l2, b2) = (log.clone(), behaviour.clone());
    // (bound first: passed inline, the FnOnce bound of the helper would make the closure FnOnce-only)
    let f = move |req: GetSigningKeyRequest| {
        let (l, b) = (l2.clone(), b2.clone());
        async move {
            l.lock().unwrap().push(KeyQuery {
                access_key: req.access_key().to_string(),
                token: req.session_token().map(|s| s.to_string()),
                date8: req.request_date().format("%Y%m%d").to_string(),
                region: req.region().to_string(),
                service: req.service().to_string(),
            });
            let (answer, secret) = b.lock().unwrap().clone();
            match answer {
                0 => {
                    let k = KSecretKey::<44>::from_str(&secret).map_err(|_| Box::new(exec::ForeignError("secret".into())) as tower::BoxError)?;
                    Ok(GetSigningKeyResponse::builder().signing_key(k.to_ksigning(req.request_date(), req.region(), req.service())).build().map_err(|e| Box::new(exec::ForeignError(e.to_string())) as tower::BoxError)?)
                }
                13 => Err(exec::foreign_error(&format!("backend unreachable ({})", secret.len() % 8))),
                k => Err(Box::new(exec::make_sig_err(Kind::ALL[(k as usize - 1) % 12], &format!("provider says no #{} ({})", k, secret.len() % 16))) as tower::BoxError),
            }
        }
    };
    let mut svc = service_for_signing_key_fn(f);
    let mut nontrivial = false;
    for (i, s) in h.steps.iter().enumerate() {
        let mut case = step_case(s);
        // the adapter is always ready; readiness scripting does not apply here
        case.prov.ready_pending = 0;
        case.prov.ready_err = None;
        case.prov.call_pending = 0;
        if case.req.headers.iter().any(|(n, _)| n.eq_ignore_ascii_case("x-must")) && !case.cfg.reqs.always.is_empty() {
            // the adapter run uses NO_ADDITIONAL_SIGNED_HEADERS
        }
        case.cfg.reqs = Reqs::default();
        let a = analyze(&case);
        *behaviour.lock().unwrap() = (s.answer, case.prov.keys[0].secret.clone());
        let Ok(http_req) = exec::build_http(&case.req) else { continue };
        let Some(now) = exec::to_datetime(case.cfg.now) else { continue };
        let before = log.lock().unwrap().len();
        let opts = SignatureOptions { s3: case.cfg.s3, url_encode_form: case.cfg.fold };
        let r = std::panic::catch_unwind(std::panic::AssertUnwindSafe(|| {
            exec::block_on(sigv4_validate_request(http_req, &case.cfg.region, &case.cfg.service, &mut svc, now, &NO_ADDITIONAL_SIGNED_HEADERS, opts), 10_000)
        }));
        let calls = log.lock().unwrap().len() - before;
        let ctxt = |m: String| format!("step {} of {} ({:?}, answer={}): {}", i, h.steps.len(), s.req.defects, s.answer, m);
        let (res, _) = match r {
            Err(p) => return Err(Failure::new("panic:adapter", ctxt(exec::panic_message(p)))),
            Ok(v) => v,
        };
        let Some(res) = res else { return Err(Failure::new("hang", ctxt("validation did not complete".into()))) };
        if calls > 1 {
            return Err(Failure::new("provider-called-twice", ctxt(format!("closure invoked {} times", calls))));
        }
        if !a.verdict().is_specified() {
            continue;
        }
        let want_calls = a.provider_calls.unwrap_or(0) as usize;
        if calls != want_calls {
            return Err(Failure::new(&format!("provider-calls:{}!={}", calls, want_calls), ctxt(format!("closure invoked {} times, model says {} ({})", calls, want_calls, a.verdict().short()))));
        }
        if calls == 1 {
            if let Some(q) = &a.key_query {
                let got = log.lock().unwrap().last().cloned().unwrap();
                if got != *q {
                    return Err(Failure::new("provider-args", ctxt(format!("closure asked for {:?}, model says {:?}", got, q))));
                }
            }
        }
        match (a.verdict(), &res) {
            (Verdict::Accept, Ok(_)) => {}
            (Verdict::Accept, Err(e)) => return Err(Failure::new("rejected-valid", ctxt(format!("model accepts, crate: {}", e)))),
            (Verdict::Reject { .. }, Ok(_)) => return Err(Failure::new("accepted-must-reject", ctxt(format!("model: {}; crate accepted", a.verdict().short())))),
            (Verdict::Reject { kinds, .. }, Err(e)) => {
                let k = e.downcast_ref::<scratchstack_aws_signature::SignatureError>().map(exec::kind_of);
                if k.map(|k| !kinds.contains(&k)).unwrap_or(true) {
                    return Err(Failure::new("wrong-kind", ctxt(format!("model: {:?}; crate: {:?} {}", kinds, k, e))));
                }
            }
            _ => {}
        }
        nontrivial |= s.answer != 0 || !s.req.defects.is_empty();
    }
    if nontrivial && h.steps.len() >= 2 {
        cc.class("adapter-history");
        cc.nontrivial(digest_of(&[format!("{:?}", h).as_bytes(), b"adapter"]));
    }
    Ok(())
}

fn answer_of(code: u8) -> Answer {
    match code {
        0 => Answer::Lookup,
        13 => Answer::Foreign("backend unreachable".into()),
        k => Answer::SigErr(Kind::ALL[(k as usize - 1) % 12], format!("provider says no #{}", k)),
    }
}

/// same, with a message that varies per step (the io::ErrorKind of an IO answer is derived from the message)
fn answer_of_step(code: u8, salt: u8) -> Answer {
    match answer_of(code) {
        Answer::SigErr(k, m) => Answer::SigErr(k, format!("{} ({})", m, salt % 24)),
        // the concrete type of a foreign error follows the number as well
        Answer::Foreign(m) => Answer::Foreign(format!("{} #{} ({})", m, salt / 8 % 97, salt % 8)),
        other => other,
    }
}

pub fn step_case(s: &Step) -> Case {
    use Defect::*;
    let mut defects = s.req.defects.clone();
    if defects.contains(&Expired) && defects.contains(&Future) {
        defects.retain(|d| *d != Future);
    }
    if defects.contains(&Arity4) && defects.contains(&Arity6) {
        defects.retain(|d| *d != Arity6);
    }
    if defects.contains(&NoCarrier) && defects.contains(&BothCarriers) {
        defects.retain(|d| *d != BothCarriers);
    }
    super::c13::reduce_signature_defects(&mut defects);
    if defects.contains(&NoCarrier) || defects.contains(&BothCarriers) {
        defects.retain(|d| *d != BothCarriersEmptyAlgorithm);
    }
    if s.req.query_carrier {
        defects.retain(|d| *d != ParamNoEquals && *d != BothCarriersEmptyAlgorithm);
    }
    let mut case = build(&s.req, &defects);
    case.prov.ready_pending = s.ready_pending;
    case.prov.ready_err = s.ready_err.map(|c| answer_of_step(c, s.req.variant));
    case.prov.call_pending = s.call_pending;
    case.prov.answer = answer_of_step(s.answer, s.req.variant);
    if s.wrong_secret {
        case.prov.keys[0].secret = "not-the-signing-secret".into();
    }
    case
}

pub fn check_history(h: &History, cc: &mut CaseCtx) -> CheckResult {
    let mut prov = exec::Prov::new(ProviderScript::default());
    let (mut any_defect, mut any_delay, mut any_err, mut any_ok) = (false, false, false, false);
    for (i, s) in h.steps.iter().enumerate() {
        let case = step_case(s);
        let a = analyze(&case);
        prov.set_script(case.prov.clone());
        let o = match s.abandon_after {
            None => exec::run_with_provider(&case.req, &case.cfg, &mut prov),
            Some(k) => exec::with_poll_budget(k as u32, || exec::run_with_provider(&case.req, &case.cfg, &mut prov)),
        };
        if let exec::Res::Unrepresentable(_) = o.res {
            continue;
        }
        if let (Some(k), exec::Res::Hang) = (s.abandon_after, &o.res) {
            // given up after k polls and dropped: no verdict to judge; what the provider saw up to here must still
            // obey the contract, and the validations that follow must be unaffected (checked below, step by step)
            cc.class("has-abandoned-validation");
            if o.calls() > 1 {
                return Err(Failure::new("provider-called-twice", format!("step {} (abandoned after {} polls): provider called {} times", i, k, o.calls())));
            }
            if o.prov_log.iter().any(|e| matches!(e, ProvEvent::Call { after_ready: false, .. })) {
                return Err(Failure::new("provider-called-before-ready", format!("step {} (abandoned after {} polls): call() without a preceding Ready", i, k)));
            }
            if a.verdict().is_specified() && a.verdict().rank() < R_PROVIDER && !o.prov_log.is_empty() {
                return Err(Failure::new("provider-touched-by-defective-request", format!("step {} (abandoned after {} polls): the request fails rule {} yet the provider saw {:?}", i, k, a.verdict().rank(), o.prov_log)));
            }
            continue;
        }
        let ctxt = |m: String| format!("step {} of {} ({:?}, ready_pending={} ready_err={:?} call_pending={} answer={}): {}", i, h.steps.len(), s.req.defects, s.ready_pending, s.ready_err, s.call_pending, s.answer, m);
        check_total(&o).map_err(|f| Failure::new(&f.sig, ctxt(f.msg)))?;
        // at most one call, and only after readiness was signalled in this validation
        let calls = o.calls();
        if calls > 1 {
            return Err(Failure::new("provider-called-twice", ctxt(format!("provider called {} times", calls))));
        }
        let mut ready_seen = false;
        for ev in &o.prov_log {
            match ev {
                ProvEvent::PollReady { result } => ready_seen = *result == "ready",
                ProvEvent::Call { after_ready, .. } => {
                    if !ready_seen || !*after_ready {
                        return Err(Failure::new("provider-called-before-ready", ctxt("call() without a preceding Ready from poll_ready".into())));
                    }
                }
                _ => {}
            }
        }
        if a.verdict().is_specified() {
            check_against_model(&a, &o).map_err(|f| Failure::new(&f.sig, ctxt(f.msg)))?;
            // "consulted last": a request that fails any of rules 1-13 does not touch the provider at all --
            // not even its readiness (which may reserve a slot in the key store)
            if a.verdict().rank() < R_PROVIDER && !o.prov_log.is_empty() {
                return Err(Failure::new("provider-touched-by-defective-request", ctxt(format!("the request fails rule {} yet the provider saw {:?}", a.verdict().rank(), o.prov_log))));
            }
            // provider errors are passed through unchanged
            if let (Verdict::Reject { rank, .. }, exec::Res::Err(e)) = (a.verdict(), &o.res) {
                if *rank == R_PROVIDER {
                    let script_err = case.prov.ready_err.clone().unwrap_or(case.prov.answer.clone());
                    match script_err {
                        Answer::SigErr(k, m) => {
                            // unchanged: the caller sees what a freshly made copy of the provider's error looks like
                            let want = exec::err_info(&exec::make_sig_err(k, &m));
                            if e.kind != want.kind || e.msg != want.msg || e.code != want.code || e.status != want.status || e.debug != want.debug {
                                return Err(Failure::new("provider-error-altered", ctxt(format!("provider said {:?} {:?} ({}), caller got {:?} {:?} ({})", k, m, want.debug, e.kind, e.msg, e.debug))));
                            }
                        }
                        Answer::Foreign(_) => {
                            if e.kind != Some(Kind::InternalServiceError) || e.status != 500 {
                                return Err(Failure::new("foreign-error-not-internal", ctxt(format!("foreign provider error surfaced as {:?}/{}", e.kind, e.status))));
                            }
                        }
                        Answer::Lookup => {}
                    }
                }
            }
        }
        // no state leaks: same step alone on a fresh provider gives the same outcome
        let alone = exec::run(&case);
        let same = match (&o.res, &alone.res) {
            (exec::Res::Ok(_), exec::Res::Ok(_)) => true,
            (exec::Res::Err(x), exec::Res::Err(y)) => x.kind == y.kind && x.status == y.status,
            _ => false,
        };
        if !same || alone.calls() != calls {
            return Err(Failure::new("history-dependent-outcome", ctxt(format!("in the history: {} ({} calls); alone: {} ({} calls)", o.res.short(), calls, alone.res.short(), alone.calls()))));
        }
        any_defect |= !s.req.defects.is_empty();
        any_delay |= s.ready_pending > 0 || s.call_pending > 0;
        any_err |= s.answer != 0 || s.ready_err.is_some();
        any_ok |= o.res.is_ok();
    }
    cc.class_if(any_defect, "has-defective-request");
    cc.class_if(any_delay, "has-delayed-provider");
    cc.class_if(any_err, "has-provider-error");
    cc.class_if(any_ok, "has-accepted-request");
    if any_defect && any_delay && any_err {
        cc.nontrivial(digest_of(&[format!("{:?}", h).as_bytes()]));
        cc.sample(json!({"steps": h.steps.iter().take(6).map(|s| format!("{}:{:?} ready_pending={} ready_err={:?} call_pending={} answer={}", if s.req.query_carrier { "query" } else { "header" }, s.req.defects, s.ready_pending, s.ready_err, s.call_pending, s.answer)).collect::<Vec<_>>(), "length": h.steps.len()}));
    }
    Ok(())
}
