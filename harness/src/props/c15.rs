//! C15 -- what is verified is what is returned: parts, body and identity pass through.

use super::common::*;
use crate::engine::*;
use crate::exec;
use crate::gen::*;
use crate::model::canon::{canonical_path, parse_query};
use crate::model::verify::*;
use crate::types::*;
use proptest::prelude::*;
use serde::{Deserialize, Serialize};
use serde_json::json;

pub const RULE: &str = "generated: accepted requests (all methods, HTTP versions, header multisets with repeated names and odd bytes, bodies, both carriers, folded or not) with generated principals (user / assumed role / service / several identities) and session data in the provider's answer. Also with further Authorization lines after the authenticating one, and with a logger rendering records down to TRACE level. Oracle (round trip): the returned Parts equal the submitted ones -- method, version, URI string, and per header name the same values in the same order with the same total count -- and the body bytes are identical; when the model says folding applied, the body is empty, the returned path canonicalises to the reference canonical path and the multiset of decoded (name, value) pairs of the returned query equals URL pairs + body pairs (X-Amz-Signature pairs may be present or absent); principal and session data equal the provider's. Non-trivial: repeated header names, or a folded body with names on both sides, or non-empty session data; distinct by request digest.";

pub fn subs() -> Vec<Box<dyn AnySub>> {
    vec![
        Box::new(Sub {
            name: "roundtrip",
            quick: 40_000,
            thorough: 600_000,
            strat: || plan(PlanOpts { logical: LogicalOpts { max_headers: 6, ..LogicalOpts::default() }, ..PlanOpts::default() }),
            check: check_roundtrip,
        }),
        // HTTP/2-style requests: no Host header, absolute-form target, ":authority" in the signed list
        Box::new(Sub {
            name: "roundtrip-h2-authority",
            quick: 8_000,
            thorough: 100_000,
            strat: || {
                plan(PlanOpts { plain_spelling: true, ..PlanOpts::default() })
                    .prop_map(|mut p| {
                        p.logical.headers.retain(|(n, _)| n != "host");
                        p.spec.signed_headers.retain(|h| h != "host");
                        p.spec.signed_headers.push(":authority".into());
                        p.spec.signed_headers.sort();
                        p.spelling.version = if p.instant.secs.rem_euclid(2) == 0 { 2 } else { 3 };
                        p.spelling.absolute_form = 1 + p.instant.secs.rem_euclid(3) as u8;
                        p.cfg.reqs = Reqs::default();
                        p
                    })
                    .boxed()
            },
            check: check_roundtrip,
        }),
        // further Authorization header lines after the one that authenticates (rule 6a uses the first):
        // they are part of the submitted request and come back with it
        Box::new(Sub {
            name: "roundtrip-several-authorization-lines",
            quick: 8_000,
            thorough: 100_000,
            strat: || {
                (plan(PlanOpts { header_only: true, ..PlanOpts::default() }), proptest::collection::vec(prop_oneof![Just("Basic dXNlcjpwYXNz".to_string()), Just("AWS4-HMAC-SHA256 Credential=x".to_string()), Just(String::new()), Just(format!("Signature={}", "0".repeat(64))), Just("Credential=AKIDOTHER/20150830/us-east-1/service/aws4_request".to_string()), Just("SignedHeaders=host".to_string()), "[!-~]{1,20}( [!-~]{1,20}){0,2}", Just("@same".to_string())], 1..4))
                    .prop_map(|(plan, more)| Extra { plan, more })
                    .boxed()
            },
            check: check_extra,
        }),
        Box::new(Sub {
            name: "roundtrip-large-fold",
            quick: 150,
            thorough: 3000,
            strat: || {
                (plan(PlanOpts { allow_s3: false, plain_spelling: true, ..PlanOpts::default() }), prop_oneof![Just(b'!'), Just(b'a'), Just(b'*'), Just(b' ')], 15_000usize..70_000)
                    .prop_map(|(mut p, fill, n)| {
                        p.cfg.fold = true;
                        p.form = Some(vec![(B::from("big"), B(vec![fill; n])), (B::from("Action"), B::from("x"))]);
                        p
                    })
                    .boxed()
            },
            check: check_roundtrip,
        }),
        Box::new(Sub {
            name: "roundtrip-folded",
            quick: 20_000,
            thorough: 300_000,
            strat: || {
                (plan(PlanOpts { allow_s3: false, ..PlanOpts::default() }), query_pairs(4), any::<bool>())
                    .prop_map(|(mut p, mut form, auth_in_body)| {
                        p.cfg.fold = true;
                        if let Some((n, _)) = p.logical.query.first().cloned() {
                            form.push((n, B::from("body-value")));
                        }
                        p.form = Some(form);
                        p.spec.auth_in_body = auth_in_body;
                        p
                    })
                    .boxed()
            },
            check: check_roundtrip,
        }),
        // Requests edited after signing (method letter case, a port on Host, ...). They should be refused -- that is C01's
        // business -- but IF an implementation is lenient enough to accept one, what it hands back must still be what was
        // submitted, not what it compared against.
        Box::new(Sub {
            name: "roundtrip-of-edited-requests",
            quick: 25_000,
            thorough: 300_000,
            strat: || (plan(PlanOpts { allow_fold: false, ..PlanOpts::default() }), lenient_edit()).prop_map(|(plan, edit)| Edited { plan, edit }).boxed(),
            check: check_edited,
        }),
        // (last: once the capturing logger is installed, trace-level arguments are evaluated for the rest of the process)
        Box::new(Sub {
            name: "roundtrip-with-trace-logging",
            quick: 15_000,
            thorough: 200_000,
            strat: || (plan(PlanOpts { logical: LogicalOpts { max_headers: 6, ..LogicalOpts::default() }, ..PlanOpts::default() }), any::<bool>()).prop_map(|(mut p, f)| {
                if f && p.form.is_some() {
                    p.cfg.fold = true;
                }
                p
            }).boxed(),
            check: |p, cc| {
                exec::enable_log_capture();
                exec::with_logs(|| check_roundtrip(p, cc)).0.map_err(|f| Failure::new(&format!("{}:trace-logging", f.sig), f.msg))
            },
        }),
    ]
}

fn sorted(mut v: Vec<(Vec<u8>, Vec<u8>)>) -> Vec<(Vec<u8>, Vec<u8>)> {
    v.sort();
    v
}

#[derive(Clone, Debug, Serialize, Deserialize)]
pub struct Edited {
    pub plan: Plan,
    /// (kind, selector)
    pub edit: (u8, u16),
}

fn lenient_edit() -> BoxedStrategy<(u8, u16)> {
    (0u8..10, any::<u16>()).boxed()
}

/// Edits that a "be liberal in what you accept" implementation might normalise away before comparing.
pub fn check_edited(e: &Edited, cc: &mut CaseCtx) -> CheckResult {
    let Ok(built) = e.plan.build() else { return Ok(()) };
    let mut case = built.case.clone();
    let (kind, x) = e.edit;
    let host = case.req.headers.iter().position(|(n, _)| n.eq_ignore_ascii_case("host"));
    let name: &'static str = match kind {
        0 => {
            case.req.method = case.req.method.to_ascii_lowercase();
            "method-lower-case"
        }
        1 => {
            let mut m: Vec<char> = case.req.method.chars().collect();
            let i = crate::engine::pick_idx(x, m.len().max(1)).min(m.len().saturating_sub(1));
            if let Some(c) = m.get_mut(i) {
                *c = if c.is_ascii_uppercase() { c.to_ascii_lowercase() } else { c.to_ascii_uppercase() };
            }
            case.req.method = m.into_iter().collect();
            "method-one-letter-case"
        }
        2 | 3 => {
            let Some(h) = host else { return Ok(()) };
            let port = [":443", ":80", ":443", ":8443"][(x % 4) as usize];
            let v = latin1(&case.req.headers[h].1 .0);
            case.req.headers[h].1 = B::from(if kind == 2 { format!("{}{}", v.trim_end_matches(port), port) } else { v.trim_end_matches(":443").trim_end_matches(":80").to_string() });
            "host-port"
        }
        4 => {
            let Some(h) = host else { return Ok(()) };
            let v = latin1(&case.req.headers[h].1 .0);
            case.req.headers[h].1 = B::from(if x % 2 == 0 { v.to_ascii_uppercase() } else { format!("{}.", v) });
            "host-case-or-trailing-dot"
        }
        5 => {
            // a signed header's value in other letter case / with a trailing semicolon
            let idx: Vec<usize> = case.req.headers.iter().enumerate().filter(|(_, (n, _))| !n.eq_ignore_ascii_case("authorization") && !n.eq_ignore_ascii_case("host")).map(|(i, _)| i).collect();
            if idx.is_empty() {
                return Ok(());
            }
            let i = idx[crate::engine::pick_idx(x, idx.len())];
            let v = latin1(&case.req.headers[i].1 .0);
            case.req.headers[i].1 = B::from(if x % 2 == 0 { v.to_ascii_uppercase() } else { v.to_ascii_lowercase() });
            "header-value-case"
        }
        6 => {
            case.req.uri = case.req.uri.replacen("%2f", "%2F", 1).replacen("%7E", "~", 1).replacen("%20", "+", 1);
            "target-respelled"
        }
        7 => {
            if case.req.uri.contains('?') {
                case.req.uri.push('&');
            } else {
                case.req.uri.push('?');
            }
            "target-trailing-separator"
        }
        8 => {
            case.req.version = [10u8, 11, 2, 3][(x % 4) as usize];
            "version"
        }
        _ => "unedited",
    };
    cc.class(name);
    if case.req == built.case.req && kind != 9 {
        cc.class("edit-without-effect");
        return Ok(());
    }
    let o = exec::run(&case);
    check_total(&o)?;
    let exec::Res::Ok(ret) = &o.res else {
        cc.class("refused");
        return Ok(());
    };
    cc.class("accepted-after-edit");
    cc.nontrivial(digest_of(&[&case.req.digest().to_le_bytes(), name.as_bytes()]));
    let sent = &case.req;
    let submitted_uri = exec::build_http(sent).map(|r| r.uri().to_string()).unwrap_or_else(|_| sent.uri.clone());
    let folded = matches!(body_mode(sent, case.cfg.fold), BodyMode::FoldUtf8);
    if ret.method != sent.method {
        return Err(Failure::new("returned-method", format!("sent {} got back {} ({})", sent.method, ret.method, name)));
    }
    if ret.version != sent.version {
        return Err(Failure::new("returned-version", format!("sent version {} got back {} ({})", sent.version, ret.version, name)));
    }
    let mut a: Vec<(String, &B)> = sent.headers.iter().map(|(n, v)| (n.to_ascii_lowercase(), v)).collect();
    let mut b: Vec<(String, &B)> = ret.headers.iter().map(|(n, v)| (n.to_ascii_lowercase(), v)).collect();
    a.sort();
    b.sort();
    if a != b {
        let diff = a.iter().find(|x| !b.contains(x)).map(|x| format!("{}: {}", x.0, x.1.escaped())).unwrap_or_default();
        return Err(Failure::new("returned-header-values", format!("the header lines handed back differ from those submitted (e.g. submitted {:?}) ({})", diff, name)));
    }
    if !folded && (ret.uri != submitted_uri || ret.body != sent.body) {
        return Err(Failure::new("returned-uri", format!("sent {:?} got back {:?} ({})", submitted_uri, ret.uri, name)));
    }
    Ok(())
}

#[derive(Clone, Debug, Serialize, Deserialize)]
pub struct Extra {
    pub plan: Plan,
    /// values of the additional Authorization lines ("@same" repeats the authenticating one)
    pub more: Vec<String>,
}

pub fn check_extra(x: &Extra, cc: &mut CaseCtx) -> CheckResult {
    let Ok(built) = x.plan.build() else {
        cc.class("unsignable");
        return Ok(());
    };
    let mut case = built.case.clone();
    let Some(first) = case.req.headers.iter().find(|(n, _)| n.eq_ignore_ascii_case("authorization")).cloned() else { return Ok(()) };
    for (i, v) in x.more.iter().enumerate() {
        let name = ["authorization", "Authorization", "AUTHORIZATION"][i % 3].to_string();
        case.req.headers.push((name, if v == "@same" { first.1.clone() } else { B::from(v.as_str()) }));
    }
    cc.class("several-authorization-lines");
    roundtrip_case(&x.plan, &case, cc)
}

pub fn check_roundtrip(p: &Plan, cc: &mut CaseCtx) -> CheckResult {
    let Ok(built) = p.build() else {
        cc.class("unsignable");
        return Ok(());
    };
    roundtrip_case(p, &built.case, cc)
}

pub fn roundtrip_case(p: &Plan, case: &Case, cc: &mut CaseCtx) -> CheckResult {
    let a = analyze(case);
    let o = exec::run(case);
    check_total(&o)?;
    let exec::Res::Ok(ret) = &o.res else {
        // completeness is C02's business
        cc.class("not-accepted");
        if std::env::var("VERIF_DEBUG").is_ok() {
            eprintln!("NOT ACCEPTED: model={} crate={} uri={} body={}", a.verdict().short(), o.res.short(), case.req.uri, case.req.body.escaped());
        }
        return Ok(());
    };
    if !a.verdict().is_accept() {
        cc.unspecified = true;
        // An accepted request must still come back as submitted. Where the model cannot say whether folding
        // applies, nothing more is checked; where it can (e.g. a merged URI too large for http::Uri) the
        // round trip below applies to whatever the crate chose to accept.
        let fold_known = !matches!(body_mode(&case.req, case.cfg.fold), BodyMode::Unspecified(_));
        match a.verdict() {
            Verdict::Unspecified { .. } if fold_known => {}
            _ => return Ok(()),
        }
    }
    let sent = &case.req;
    if ret.method != sent.method {
        return Err(Failure::new("returned-method", format!("sent {} got back {}", sent.method, ret.method)));
    }
    if ret.version != sent.version {
        return Err(Failure::new("returned-version", format!("sent version {} got back {}", sent.version, ret.version)));
    }
    // headers: same names, per name same values in same order, same count
    if ret.headers.len() != sent.headers.len() {
        return Err(Failure::new("returned-header-count", format!("sent {} header lines, got back {}", sent.headers.len(), ret.headers.len())));
    }
    let mut names: Vec<String> = sent.headers.iter().map(|(n, _)| n.to_ascii_lowercase()).collect();
    names.sort();
    names.dedup();
    let mut repeated = false;
    for n in &names {
        let s: Vec<&B> = sent.headers.iter().filter(|(m, _)| m.eq_ignore_ascii_case(n)).map(|(_, v)| v).collect();
        let r: Vec<&B> = ret.headers.iter().filter(|(m, _)| m.eq_ignore_ascii_case(n)).map(|(_, v)| v).collect();
        repeated |= s.len() > 1;
        if s != r {
            return Err(Failure::new("returned-header-values", format!("header {}: sent {:?}, got back {:?}", n, s, r)));
        }
    }
    let mut folded_interesting = false;
    if a.folded {
        if !ret.body.0.is_empty() {
            return Err(Failure::new("folded-body-not-empty", format!("folding applied but {} body bytes were returned", ret.body.0.len())));
        }
        let (rp, rq) = match ret.uri.find('?') {
            Some(i) => (&ret.uri[..i], &ret.uri[i + 1..]),
            None => (ret.uri.as_str(), ""),
        };
        let want_path = a.canonical_path.clone().unwrap_or_default();
        match canonical_path(rp.as_bytes(), case.cfg.s3) {
            Ok((cp, _)) if cp == want_path => {}
            other => return Err(Failure::new("folded-path", format!("returned path {:?} canonicalises to {:?}, authenticated path is {:?}", rp, other, want_path))),
        }
        let got = parse_query(rq.as_bytes()).map_err(|_| Failure::new("folded-query-unparsable", format!("returned query {:?} does not parse", rq)))?;
        let strip = |v: &[(Vec<u8>, Vec<u8>)]| -> Vec<(Vec<u8>, Vec<u8>)> { v.iter().filter(|(n, _)| n.as_slice() != b"X-Amz-Signature").cloned().collect() };
        if sorted(strip(&got)) != sorted(strip(&a.merged_pairs)) {
            return Err(Failure::new(
                "folded-query-multiset",
                format!("returned query {:?} does not carry exactly the URL + body parameters that were authenticated ({} URL, {} body)", rq, a.url_pairs.len(), a.body_pairs.len()),
            ));
        }
        folded_interesting = !a.url_pairs.is_empty() && !a.body_pairs.is_empty();
    } else {
        // compare with the target as the http crate holds it (it lower-cases the scheme of an absolute-form target)
        let submitted = exec::build_http(sent).map(|r| r.uri().to_string()).unwrap_or_else(|_| sent.uri.clone());
        if ret.uri != submitted {
            return Err(Failure::new("returned-uri", format!("sent {:?} got back {:?}", submitted, ret.uri)));
        }
        if ret.body != sent.body {
            return Err(Failure::new("returned-body", format!("sent {} body bytes, got back {} (or different content)", sent.body.0.len(), ret.body.0.len())));
        }
    }
    let e = &p.entry;
    if ret.principal != exec::build_principal(&e.principal) {
        return Err(Failure::new("returned-principal", format!("provider supplied {:?}, caller got {:?}", e.principal, ret.principal)));
    }
    if ret.session != exec::build_session(&e.session) {
        return Err(Failure::new("returned-session", format!("provider supplied {:?}, caller got {:?}", e.session, ret.session)));
    }
    cc.class_if(repeated, "repeated-header-names");
    cc.class_if(a.folded, "folded");
    cc.class_if(folded_interesting, "folded-with-url-and-body-params");
    cc.class_if(!e.session.is_empty(), "session-data");
    cc.class_if(e.principal != PrincipalSpec::Empty, "principal");
    cc.class_if(p.spec.carrier == Carrier::Query, "query-carrier");
    if repeated || folded_interesting || !e.session.is_empty() {
        cc.nontrivial(digest_of(&[&sent.digest().to_le_bytes(), format!("{:?}{:?}", e.principal, e.session).as_bytes()]));
        cc.sample(case_sample(case, json!({"returned_uri": ret.uri, "returned_body_len": ret.body.0.len(), "principal": format!("{:?}", e.principal), "session": e.session})));
    }
    Ok(())
}
