//! C16 -- timestamps: ISO-8601 accepted, value exact, compact UTC in the string-to-sign.

use super::common::*;
use crate::engine::*;
use crate::exec;
use crate::gen::*;
use crate::model::time::*;
use crate::model::verify::*;
use crate::types::*;
use proptest::prelude::*;
use scratchstack_aws_signature::canonical::CanonicalRequest;
use scratchstack_aws_signature::{SignatureOptions, NO_ADDITIONAL_SIGNED_HEADERS};
use serde::{Deserialize, Serialize};
use serde_json::json;

pub const RULE: &str = "enumerated completely: every two-digit value 00-99 of month, day (for every month of a leap and a non-leap year), hour, minute, second, zone hour and zone minute with the other fields fixed; all 2^5 separator combinations x 3 fraction marks; fraction lengths 0-12; years 0001, 0999, 1000, 9999; generated: random strings over the date-time alphabet, single-character insertions/deletions/substitutions of valid timestamps, renderings of random instants, surrounding spaces on the header carrier, a well-formed Date header next to the X-Amz-Date under test; each string on both carriers and as the last field of a folded form body (trailing line breaks left raw). Also: junk appended/prepended to a valid timestamp (comma-space-x, space-GMT, semicolon-x, a second timestamp after comma-space), and pairs of same-length strings one digit apart (fractions up to 50 digits) parsed directly after one another. Oracle = independent recursive-descent ISO-8601 parser with calendar arithmetic: MustAccept => the crate produces an authenticator whose instant equals the reference instant (offset applied, fraction truncated to ns), line 2 of its string-to-sign is that instant as YYYYMMDD'T'hhmmss'Z' in UTC, and end to end a request signed for that instant is accepted with the server clock exactly 900 s later and refused 1 ns further (pins the instant through the stable API); MustReject (out-of-range field, impossible date, missing zone, extra characters) => IncompleteSignature/400; Unspecified (zone > 14h, mixed separators, reduced precision) => if accepted the instant must still be the reference one. Non-trivial: well-formed except for at most one field, or non-Z zone, or fraction, or extended form; distinct by (string, carrier).";

#[derive(Clone, Debug, Serialize, Deserialize, PartialEq, Eq)]
pub struct TsCase {
    pub text: String,
    pub query_carrier: bool,
    /// spaces added around the header value (header carrier only)
    pub pad: u8,
}

pub fn subs() -> Vec<Box<dyn AnySub>> {
    vec![
        Box::new(EnumSub { name: "fields", exhaustive: true, list: field_list, check: check_ts }),
        Box::new(EnumSub { name: "separators", exhaustive: true, list: separator_list, check: check_ts }),
        Box::new(Sub { name: "mutated", quick: 30_000, thorough: 700_000, strat: mutated, check: check_ts }),
        Box::new(Sub { name: "random-strings", quick: 15_000, thorough: 400_000, strat: random_strings, check: check_ts }),
        Box::new(Sub {
            name: "renderings",
            quick: 15_000,
            thorough: 300_000,
            strat: || (instant(), ts_style(), any::<bool>(), 0u8..16).prop_map(|(i, st, q, pad)| TsCase { text: render(truncate_to_style(i, &st), st), query_carrier: q, pad }).boxed(),
            check: check_ts,
        }),
        // one string directly after a same-length twin that differs in a single digit (or after itself):
        // what was parsed before must not decide what is parsed now
        Box::new(Sub { name: "consecutive-twins", quick: 15_000, thorough: 300_000, strat: twins, check: check_twins }),
        Box::new(Sub {
            name: "e2e-pin",
            quick: 6_000,
            thorough: 100_000,
            strat: || (instant(), ts_style(), any::<bool>()).prop_map(|(i, st, q)| TsCase { text: render(truncate_to_style(i, &st), st), query_carrier: q, pad: 0 }).boxed(),
            check: check_pin,
        }),
    ]
}

fn both(text: String, out: &mut Vec<TsCase>) {
    out.push(TsCase { text: text.clone(), query_carrier: false, pad: 0 });
    // the same string as the last field of a folded form body
    out.push(TsCase { text: text.clone(), query_carrier: true, pad: 64 });
    // the same X-Amz-Date value next to a well-formed Date header (after it / before it)
    out.push(TsCase { text: text.clone(), query_carrier: false, pad: if text.len() % 2 == 0 { 16 } else { 48 } });
    out.push(TsCase { text, query_carrier: true, pad: 0 });
}

pub fn field_list(_t: Tier) -> Vec<TsCase> {
    let mut out = Vec::new();
    for v in 0..100u32 {
        both(format!("2015{:02}15T123600Z", v), &mut out);
        both(format!("2015-{:02}-15T12:36:00Z", v), &mut out);
        for y in [2015, 2016, 1900, 2000] {
            for m in 1..=12u32 {
                both(format!("{:04}{:02}{:02}T123600Z", y, m, v), &mut out);
            }
        }
        both(format!("20150830T{:02}3600Z", v), &mut out);
        both(format!("20150830T12{:02}00Z", v), &mut out);
        both(format!("20150830T1236{:02}Z", v), &mut out);
        both(format!("2015-08-30T12:36:{:02}.5Z", v), &mut out);
        for sign in ['+', '-'] {
            both(format!("20150830T123600{}{:02}00", sign, v), &mut out);
            both(format!("20150830T123600{}01{:02}", sign, v), &mut out);
            both(format!("2015-08-30T12:36:00{}{:02}:30", sign, v), &mut out);
            both(format!("2015-08-30T00:10:00{}00:{:02}", sign, v), &mut out);
        }
    }
    // the last minute of the day, where a leap second would sit, and over-long fractions
    for v in 0..100u32 {
        both(format!("20150630T2359{:02}Z", v), &mut out);
        both(format!("2016-12-31T23:59:{:02}+00:00", v), &mut out);
        both(format!("20150830T23{:02}60Z", v), &mut out);
    }
    for n in [13usize, 18, 19, 20, 21, 25, 32, 40, 64] {
        for d in ['0', '1', '5', '9'] {
            let f: String = std::iter::repeat(d).take(n).collect();
            both(format!("20150830T123600.{}Z", f), &mut out);
            both(format!("2015-08-30T12:36:00,{}+02:30", f), &mut out);
        }
    }
    // "24:00:00" and its neighbours: hour 24 is out of range whatever the minutes and seconds are (several fields at
    // their special values at once -- the one-field sweeps above keep the others ordinary)
    for (h, m, sec) in [(24u32, 0u32, 0u32), (24, 0, 1), (24, 1, 0), (24, 59, 59), (23, 60, 0), (23, 59, 60), (23, 60, 60), (24, 60, 60), (0, 0, 0), (0, 0, 60), (12, 60, 0), (25, 0, 0), (99, 99, 99)] {
        for (d8, dx) in [("20150830", "2015-08-30"), ("20151231", "2015-12-31"), ("00010130", "0001-01-30"), ("99991231", "9999-12-31")] {
            for zone in ["Z", "+0000", "-1400", "+0530"] {
                both(format!("{}T{:02}{:02}{:02}{}", d8, h, m, sec, zone), &mut out);
                both(format!("{}T{:02}:{:02}:{:02}{}", dx, h, m, sec, if zone == "Z" { "Z".to_string() } else { format!("{}:{}", &zone[..3], &zone[3..]) }), &mut out);
                both(format!("{}T{:02}{:02}{:02}.000{}", d8, h, m, sec, zone), &mut out);
            }
        }
    }
    for y in ["0001", "0999", "1000", "9999", "0000", "0004"] {
        both(format!("{}0229T000000Z", y), &mut out);
        both(format!("{}-01-01T00:00:00+00:01", y), &mut out);
        both(format!("{}-12-31T23:59:59-00:01", y), &mut out);
        both(format!("{}1231T235959Z", y), &mut out);
    }
    out
}

pub fn separator_list(_t: Tier) -> Vec<TsCase> {
    let mut out = Vec::new();
    for mask in 0..32u32 {
        let d1 = if mask & 1 != 0 { "-" } else { "" };
        let d2 = if mask & 2 != 0 { "-" } else { "" };
        let c1 = if mask & 4 != 0 { ":" } else { "" };
        let c2 = if mask & 8 != 0 { ":" } else { "" };
        let zc = if mask & 16 != 0 { ":" } else { "" };
        for frac in ["", ".25", ",25"] {
            both(format!("2015{}08{}30T12{}36{}00{}Z", d1, d2, c1, c2, frac), &mut out);
            both(format!("2015{}08{}30T12{}36{}00{}+01{}30", d1, d2, c1, c2, frac, zc), &mut out);
            both(format!("2015{}08{}30T23{}36{}00{}-05{}00", d1, d2, c1, c2, frac, zc), &mut out);
        }
    }
    for n in 0..=12usize {
        for mark in [".", ","] {
            let f: String = "123456789876".chars().take(n).collect();
            both(format!("20150830T123600{}{}Z", mark, f), &mut out);
            both(format!("2015-08-30T12:36:00{}{}+00:00", mark, f), &mut out);
        }
    }
    for extra in [" ", "x", "Z", "0", "\t", "\n", "T"] {
        both(format!("20150830T123600Z{}", extra), &mut out);
        both(format!("{}20150830T123600Z", extra), &mut out);
    }
    for t in ["20150830T123600", "2015-08-30T12:36:00", "20150830T123600.5", "20150830", "20150830T1236Z", "2015-08-30 12:36:00Z", "20150830t123600z", "20150830T123600z", "", "Z", "T", "2015-W35-7T12:36:00Z", "2015-242T12:36:00Z", "+20150830T123600Z", "20150830T123600+01", "٢٠١٥0830T123600Z"] {
        both(t.to_string(), &mut out);
    }
    out
}

fn valid_ts() -> BoxedStrategy<String> {
    (instant(), ts_style()).prop_map(|(i, st)| render(truncate_to_style(i, &st), st)).boxed()
}

pub fn mutated() -> BoxedStrategy<TsCase> {
    (valid_ts(), 0u8..4, any::<u16>(), any::<u16>(), any::<bool>(), prop_oneof![3 => Just(0u8), 1 => 0u8..16, 2 => 0u8..64, 2 => prop_oneof![Just(64u8), Just(192u8)]])
        .prop_map(|(t, kind, pos, c, q, pad)| {
            const ALPHA: &[u8] = b"0123456789TZtz:+-., 9";
            // what an intermediary or a sloppy client may put around a timestamp
            const JUNK: &[&str] = &["\n", "\r\n", "\r", "\n\n", "\t", " ", ", ", ", x", ", 20161231T235959Z", " ,", ",", ";", "; x", " x", " Z", "Z", " GMT", " UTC", "Z, ", ",0", ", 0", "/", "\"", "'", "(x)", "[UTC]", "=", "&", "%20"];
            let mut b: Vec<u8> = t.into_bytes();
            let ch = ALPHA[pick_idx(c, ALPHA.len())];
            match kind {
                3 => {
                    let j = JUNK[pick_idx(c, JUNK.len())].as_bytes();
                    if pos % 4 == 0 {
                        let mut v = j.to_vec();
                        v.extend_from_slice(&b);
                        b = v;
                    } else {
                        b.extend_from_slice(j);
                    }
                }
                0 if !b.is_empty() => {
                    let i = pick_idx(pos, b.len());
                    b[i] = ch;
                }
                1 if !b.is_empty() => {
                    let i = pick_idx(pos, b.len());
                    b.remove(i);
                }
                _ => {
                    let i = pick_idx(pos, b.len() + 1);
                    b.insert(i, ch);
                }
            }
            TsCase { text: String::from_utf8(b).unwrap(), query_carrier: q, pad }
        })
        .boxed()
}

#[derive(Clone, Debug, Serialize, Deserialize, PartialEq, Eq)]
pub struct Twins {
    pub a: TsCase,
    pub b: TsCase,
}

fn twins() -> BoxedStrategy<Twins> {
    (instant(), ts_style(), "[0-9]{0,40}", any::<u16>(), any::<bool>(), 0u8..10, any::<bool>())
        .prop_map(|(i, st, extra, pos, tail, digit, q)| {
            let mut t = render(truncate_to_style(i, &st), st).into_bytes();
            // lengthen the fraction (digits beyond the ninth do not change the instant)
            if let Some(m) = t.iter().position(|c| *c == b'.' || *c == b',') {
                let mut e = m + 1;
                while e < t.len() && t[e].is_ascii_digit() {
                    e += 1;
                }
                if e > m + 1 {
                    for (k, c) in extra.bytes().enumerate() {
                        t.insert(e + k, c);
                    }
                }
            }
            let mut u = t.clone();
            let digits: Vec<usize> = (0..u.len()).filter(|k| u[*k].is_ascii_digit()).collect();
            if !digits.is_empty() {
                let k = if tail { digits[digits.len() - 1 - pick_idx(pos, digits.len().min(6))] } else { digits[pick_idx(pos, digits.len())] };
                u[k] = if u[k] == b'0' + digit { b'0' + (digit + 1) % 10 } else { b'0' + digit };
            }
            let mk = |v: Vec<u8>| TsCase { text: String::from_utf8(v).unwrap(), query_carrier: q, pad: 0 };
            Twins { a: mk(t), b: mk(u) }
        })
        .boxed()
}

pub fn check_twins(tw: &Twins, cc: &mut CaseCtx) -> CheckResult {
    let mut scratch = CaseCtx::default();
    check_ts(&tw.a, &mut scratch)?;
    let after = |f: Failure| Failure::new(&format!("{}:after-twin", f.sig), format!("{} -- directly after parsing {:?}", f.msg, tw.a.text));
    check_ts(&tw.b, cc).map_err(after)?;
    check_ts(&tw.b, &mut scratch).map_err(after)?;
    check_ts(&tw.a, &mut scratch).map_err(|f| Failure::new(&format!("{}:after-twin", f.sig), format!("{} -- directly after parsing {:?}", f.msg, tw.b.text)))?;
    cc.class_if(tw.a.text.len() > 40, "longer-than-40");
    cc.class_if(tw.a.text.len() == tw.b.text.len() && tw.a.text != tw.b.text, "same-length-one-digit-apart");
    Ok(())
}

fn random_strings() -> BoxedStrategy<TsCase> {
    ("[0-9TZtz:+., -]{0,26}", any::<bool>()).prop_map(|(t, q)| TsCase { text: t, query_carrier: q, pad: 0 }).boxed()
}

fn build_request(tc: &TsCase, credential_date: &str) -> WireRequest {
    let cred = format!("AKIDEXAMPLE/{}/us-east-1/service/aws4_request", credential_date);
    if tc.query_carrier {
        let q = format!(
            "X-Amz-Algorithm=AWS4-HMAC-SHA256&X-Amz-Credential={}&X-Amz-Date={}&X-Amz-SignedHeaders=host&X-Amz-Signature={}",
            crate::model::canon::pct_encode(cred.as_bytes()),
            crate::model::canon::pct_encode(tc.text.as_bytes()),
            "0".repeat(64)
        );
        if tc.pad & 64 != 0 {
            // third carrier: the parameters travel in a form body that the server folds into the query; the date is the
            // LAST field, and (bit 7) whatever trails the timestamp text is left raw rather than percent-encoded
            let head = format!(
                "X-Amz-Algorithm=AWS4-HMAC-SHA256&X-Amz-Credential={}&X-Amz-SignedHeaders=host&X-Amz-Signature={}&X-Amz-Date=",
                crate::model::canon::pct_encode(cred.as_bytes()),
                "0".repeat(64)
            );
            let text = tc.text.as_bytes();
            let keep_raw = if tc.pad & 128 != 0 { text.iter().rev().take_while(|c| matches!(c, b'\r' | b'\n' | b' ' | b'\t' | b'Z' | b'z')).count() } else { 0 };
            let mut body = head.into_bytes();
            body.extend_from_slice(crate::model::canon::pct_encode(&text[..text.len() - keep_raw]).as_bytes());
            for c in &text[text.len() - keep_raw..] {
                // a raw space would read as is, a raw '+' as a space: only bytes that mean themselves stay raw
                if *c == b' ' {
                    body.extend_from_slice(b"%20");
                } else {
                    body.push(*c);
                }
            }
            return WireRequest {
                method: "POST".into(),
                uri: "/".into(),
                version: 11,
                headers: vec![("Host".into(), B::from("h.example")), ("Content-Type".into(), B::from("application/x-www-form-urlencoded"))],
                body: B(body),
            };
        }
        WireRequest { method: "GET".into(), uri: format!("/?{}", q), version: 11, headers: vec![("Host".into(), B::from("h.example"))], body: B::default() }
    } else {
        let mut v = Vec::new();
        for _ in 0..(tc.pad & 3) {
            v.push(b' ');
        }
        v.extend_from_slice(tc.text.as_bytes());
        for _ in 0..((tc.pad >> 2) & 3) {
            v.push(b' ');
        }
        let mut req = WireRequest {
            method: "GET".into(),
            uri: "/".into(),
            version: 11,
            headers: vec![
                ("Host".into(), B::from("h.example")),
                ("X-Amz-Date".into(), B(v)),
                ("Authorization".into(), B::from(format!("AWS4-HMAC-SHA256 Credential={}, SignedHeaders={}, Signature={}", cred, if tc.pad & 16 == 0 { "host;x-amz-date" } else { ["host;x-amz-date", "date;host", "date;host;x-amz-date"][tc.text.len() / 3 % 3] }, "0".repeat(64)))),
            ],
            body: B::default(),
        };
        // bit 4: a well-formed Date header rides along (bit 5: in front of X-Amz-Date); X-Amz-Date still decides
        if tc.pad & 16 != 0 {
            let at = if tc.pad & 32 != 0 { 1 } else { 2 };
            req.headers.insert(at, ("Date".into(), B::from(["20150830T123600Z", "2015-08-30T12:36:00+00:00", "20150830T123601Z"][tc.text.len() % 3])));
        }
        req
    }
}

/// What the crate makes of the timestamp: Ok((instant, line 2 of the string to sign)) or the error.
fn crate_parse(req: &WireRequest) -> Result<Result<(Instant, String), exec::ErrInfo>, String> {
    let http_req = exec::build_http(req).map_err(|e| format!("UNREPRESENTABLE {}", e))?;
    let r = std::panic::catch_unwind(std::panic::AssertUnwindSafe(move || {
        let (parts, body) = http_req.into_parts();
        let fold = parts.headers.contains_key("content-type");
        let (cr, _, _) = CanonicalRequest::from_request_parts(parts, body, SignatureOptions { s3: false, url_encode_form: fold })?;
        let auth = cr.get_authenticator(&NO_ADDITIONAL_SIGNED_HEADERS)?;
        let ts = auth.request_timestamp();
        let sts = auth.get_string_to_sign();
        Ok::<_, scratchstack_aws_signature::SignatureError>((ts, sts))
    }));
    match r {
        Err(p) => Err(format!("PANIC {}", exec::panic_message(p))),
        Ok(Err(e)) => Ok(Err(exec::err_info(&e))),
        Ok(Ok((ts, sts))) => {
            let inst = Instant { secs: ts.timestamp(), nanos: ts.timestamp_subsec_nanos() };
            let line2 = String::from_utf8_lossy(&sts).split('\n').nth(1).unwrap_or("").to_string();
            Ok(Ok((inst, line2)))
        }
    }
}

pub fn check_ts(tc: &TsCase, cc: &mut CaseCtx) -> CheckResult {
    if !tc.query_carrier && (tc.text.bytes().any(|c| c < 0x20 && c != b'\t' || c == 0x7f) || tc.text.starts_with(' ') || tc.text.ends_with(' ')) {
        // not representable as (or indistinguishable from padding of) a header value
        return Ok(());
    }
    let verdict = parse_iso8601(tc.text.as_bytes());
    let date = match &verdict {
        IsoVerdict::Accept(i) | IsoVerdict::Unspecified(_, Some(i)) => i.date8(),
        _ => "20150830".to_string(),
    };
    let req = build_request(tc, &date);
    let got = match crate_parse(&req) {
        Err(m) if m.starts_with("UNREPRESENTABLE") => {
            cc.class("unrepresentable");
            return Ok(());
        }
        Err(m) => return Err(Failure::new("panic:timestamp", format!("timestamp {:?}: {}", tc.text, m))),
        Ok(g) => g,
    };
    let tabbed = !tc.query_carrier && (tc.text.starts_with('\t') || tc.text.ends_with('\t'));
    let nonascii = !tc.text.is_ascii();
    let label: &'static str;
    let res = match (&verdict, &got) {
        _ if tabbed || nonascii => {
            cc.unspecified = true;
            label = "unspecified";
            Ok(())
        }
        (IsoVerdict::Accept(i), Ok((inst, line2))) => {
            label = "accepted";
            if inst != i {
                Err(Failure::new("timestamp-wrong-instant", format!("{:?} denotes {}+{}ns, crate says {}+{}ns", tc.text, i.compact(), i.nanos, inst.compact(), inst.nanos)))
            } else if *line2 != i.compact() {
                Err(Failure::new("timestamp-sts-line", format!("{:?}: string-to-sign carries {:?}, expected {:?}", tc.text, line2, i.compact())))
            } else {
                Ok(())
            }
        }
        (IsoVerdict::Accept(i), Err(e)) => {
            label = "accepted";
            Err(Failure::new("timestamp-rejected-wellformed", format!("{:?} is well-formed ({}), crate refuses: {:?} {}", tc.text, i.compact(), e.kind, e.msg)))
        }
        (IsoVerdict::Reject(why), Ok((inst, _))) => {
            label = "rejected";
            Err(Failure::new("timestamp-accepted-malformed", format!("{:?} must be refused ({}), crate reads it as {}", tc.text, why, inst.compact())))
        }
        (IsoVerdict::Reject(_), Err(e)) => {
            label = "rejected";
            check_taxonomy(e)?;
            if e.kind == Some(Kind::IncompleteSignature) {
                Ok(())
            } else {
                Err(Failure::new("timestamp-wrong-kind", format!("{:?}: refused with {:?}, expected IncompleteSignature", tc.text, e.kind)))
            }
        }
        (IsoVerdict::Unspecified(_, i), Ok((inst, _))) => {
            cc.unspecified = true;
            label = "unspecified";
            match i {
                Some(i) if i != inst => Err(Failure::new("timestamp-wrong-instant", format!("{:?}: if accepted it denotes {}, crate says {}", tc.text, i.compact(), inst.compact()))),
                _ => Ok(()),
            }
        }
        (IsoVerdict::Unspecified(..), Err(_)) => {
            cc.unspecified = true;
            label = "unspecified";
            Ok(())
        }
    };
    cc.class(label);
    cc.class_if(tc.query_carrier, "query-carrier");
    cc.class_if(tc.query_carrier && tc.pad & 64 != 0, "form-body-carrier");
    cc.class_if(tc.pad & 15 != 0 && !tc.query_carrier, "padded-header");
    cc.class_if(tc.pad & 16 != 0 && !tc.query_carrier, "well-formed-date-header-alongside");
    if label != "unspecified" {
        let t = &tc.text;
        if t.contains('+') || t.contains('-') || t.contains('.') || t.contains(',') || t.contains(':') || label == "rejected" {
            cc.class_if(t.contains('.') || t.contains(','), "fraction");
            cc.nontrivial(digest_of(&[t.as_bytes(), &[tc.query_carrier as u8]]));
            cc.sample(json!({"text": t, "carrier": if tc.query_carrier { "query" } else { "header" }, "reference": format!("{:?}", verdict), "crate": match &got { Ok((i, l)) => format!("{}+{}ns / {}", i.compact(), i.nanos, l), Err(e) => format!("{:?}", e.kind) }}));
        }
    }
    res
}

/// Stable-API pin: accepted with the server clock exactly 900 s after the reference instant, refused 1 ns later.
pub fn check_pin(tc: &TsCase, cc: &mut CaseCtx) -> CheckResult {
    let IsoVerdict::Accept(i) = parse_iso8601(tc.text.as_bytes()) else { return Ok(()) };
    let carrier = if tc.query_carrier { Carrier::Query } else { Carrier::Header };
    let mut plan = simple_plan(carrier);
    plan.instant = i;
    plan.spec.ts_text = tc.text.clone();
    for (shift, want_ok) in [(900_000_000_000i128, true), (900_000_000_001, false), (-900_000_000_000, true), (-900_000_000_001, false)] {
        plan.cfg.now = i.add_nanos(shift);
        if !(1..=9999).contains(&plan.cfg.now.year()) {
            continue;
        }
        let Ok(built) = plan.build() else { return Ok(()) };
        let a = analyze(&built.case);
        if a.verdict().is_accept() != want_ok {
            return Err(harness_bug(format!("pin model inconsistent for {:?} shift {}", tc.text, shift)));
        }
        let o = exec::run(&built.case);
        check_total(&o)?;
        if o.res.is_ok() != want_ok {
            return Err(Failure::new("timestamp-instant-not-pinned", format!("{:?} with server clock {} ns away: accepted={} expected {}", tc.text, shift, o.res.is_ok(), want_ok)));
        }
    }
    cc.class("pinned");
    cc.nontrivial(digest_of(&[tc.text.as_bytes(), &[tc.query_carrier as u8], b"pin"]));
    Ok(())
}
