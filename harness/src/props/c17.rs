//! C17 -- no key material or valid signature leaks through errors, Debug/Display or logs.

use super::c13::{build, DefectCase, ALL_DEFECTS};
use super::common::*;
use crate::engine::*;
use crate::exec;
use crate::model::crypto::*;
use crate::model::verify::*;
use proptest::prelude::*;
use scratchstack_aws_signature::canonical::CanonicalRequest;
use scratchstack_aws_signature::{GetSigningKeyRequest, GetSigningKeyResponse, KSecretKey, SignatureOptions, NO_ADDITIONAL_SIGNED_HEADERS};
use serde::{Deserialize, Serialize};
use serde_json::json;
use std::str::FromStr;

pub const RULE: &str = "generated: high-entropy secrets (20-40 random characters, so substring hits are not accidental), requests accepted and refused at every rule (defect sets from the C13 catalogue) with scripted provider answers. One sub-check presents the same refused request 2-101 times in a row with nothing else validated in between anywhere in the process. Observed: every log record at DEBUG level or above emitted during validation (capturing `log` logger at max level Trace so TRACE formatting code runs too), Display and {:?}/{:#?} of every returned error, of all five key types, of the provider request/response, of builders, of CanonicalRequest, SigV4Authenticator and SigV4AuthenticatorResponse. Oracle: none of them contains the secret (nor the secret of any of the previous 48 validations on the same thread), any derived key (kDate, kRegion, kService, kSigning) or -- when the presented signature is wrong -- the signature the reference model computes, rendered raw, hex (lower/upper), base64 (standard / URL-safe, padded or not) or as a decimal / hex byte list ('[67, 28, ...]', the shape a derived Debug prints). Non-trivial: a refused request with a wrong but well-formed signature, or a rendering of a value that holds key material; distinct by (secret, defect set, carrier).";

#[derive(Clone, Debug, Serialize, Deserialize)]
pub struct LeakCase {
    pub secret: String,
    pub req: DefectCase,
}

#[derive(Clone, Debug, Serialize, Deserialize)]
pub struct PlanLeak {
    pub plan: crate::gen::Plan,
    /// how the presented signature is spoiled: 0 correct, 1 one digit, 2 non-hex, 3 upper-case wrong, 4 too long, 5 too short, 6 empty
    pub spoil: u8,
}

#[derive(Clone, Debug, Serialize, Deserialize)]
pub struct Burst {
    pub leak: PlanLeak,
    pub times: u16,
}

static BURST_LOCK: std::sync::Mutex<()> = std::sync::Mutex::new(());

thread_local! {
    static RECENT_SECRETS: std::cell::RefCell<std::collections::VecDeque<String>> = const { std::cell::RefCell::new(std::collections::VecDeque::new()) };
    static RECENT_KEYS: std::cell::RefCell<std::collections::VecDeque<[u8; 32]>> = const { std::cell::RefCell::new(std::collections::VecDeque::new()) };
}

/// A client stuck in a retry loop: the very same request presented many times in a row, with no other
/// validation in between anywhere in the process (the bursts of all worker threads are serialised).
pub fn check_burst(b: &Burst, cc: &mut CaseCtx) -> CheckResult {
    let _guard = BURST_LOCK.lock().unwrap_or_else(|e| e.into_inner());
    let mut scratch = CaseCtx::default();
    for i in 0..b.times {
        check_plan_leak(&b.leak, if i == 0 { &mut *cc } else { &mut scratch }).map_err(|f| Failure::new(&format!("{}:repeated-presentation", f.sig), format!("{} (presentation {} of {} of the same request)", f.msg, i + 1, b.times)))?;
    }
    cc.class(match b.times {
        0..=9 => "2-9-times",
        10..=40 => "10-40-times",
        _ => "over-40-times",
    });
    Ok(())
}

#[derive(Clone, Debug, Serialize, Deserialize)]
pub struct Rotation {
    pub leak: PlanLeak,
    pub secrets: [String; 2],
    /// which of the two secrets the provider holds (and the client signs with) at each step
    pub order: Vec<bool>,
}

pub fn check_rotation(r: &Rotation, cc: &mut CaseCtx) -> CheckResult {
    for (i, second) in r.order.iter().enumerate() {
        let mut step = r.leak.clone();
        let secret = r.secrets[*second as usize].clone();
        step.plan.spec.secret = secret.clone();
        step.plan.entry.secret = secret;
        // every other step is a correctly signed request, the rest carry a spoiled signature
        if i % 2 == 0 {
            step.spoil = 0;
        }
        let mut scratch = CaseCtx::default();
        check_plan_leak(&step, if i + 1 == r.order.len() { &mut *cc } else { &mut scratch })
            .map_err(|f| Failure::new(&format!("{}:after-rotation", f.sig), format!("{} (step {} of a history in which the secret behind one access key alternates: {:?})", f.msg, i + 1, r.order)))?;
    }
    cc.class_if(r.order.windows(2).any(|w| w[0] != w[1]), "secret-replaced-at-least-once");
    Ok(())
}

/// The same search over the full request generator: every region / service name of the dictionary (incl. "s3"),
/// every shape of access key and secret, tokens, both carriers, all options.
pub fn check_plan_leak(pl: &PlanLeak, cc: &mut CaseCtx) -> CheckResult {
    exec::enable_log_capture();
    let Ok(built) = pl.plan.build() else { return Ok(()) };
    let mut case = built.case.clone();
    let sig = built.signed.signature.clone();
    let presented = match pl.spoil % 7 {
        0 => sig.clone(),
        1 => format!("{}{}", if sig.starts_with('0') { "1" } else { "0" }, &sig[1..]),
        2 => "Z".repeat(64),
        3 => format!("{}{}", if sig.starts_with('a') { "B" } else { "A" }, &sig[1..]).to_ascii_uppercase(),
        4 => format!("{}0", sig),
        5 => sig[..63].to_string(),
        _ => String::new(),
    };
    if presented != sig && !super::c01::replace_signature(&mut case.req, &sig, &presented) {
        return Ok(());
    }
    let (o, logs) = exec::with_logs(|| exec::run(&case));
    check_total(&o)?;
    if let exec::Res::Unrepresentable(_) = o.res {
        return Ok(());
    }
    let secret = pl.plan.entry.secret.as_bytes();
    if secret.len() < 12 {
        // too short for a substring hit to mean anything
        cc.class("short-secret-skipped");
        return Ok(());
    }
    let chain = key_chain(secret, &pl.plan.instant.date8(), &case.cfg.region, &case.cfg.service);
    let mut nd = needles("secret key", secret);
    for (i, name) in ["kDate", "kRegion", "kService", "kSigning"].iter().enumerate() {
        nd.extend(needles(name, &chain[i]));
    }
    let refused = !o.res.is_ok();
    if refused && presented != sig {
        nd.push(("the correct signature of a refused request".into(), sig.clone()));
        nd.push(("the correct signature of a refused request (upper case)".into(), sig.to_ascii_uppercase()));
    }
    // the access key and token are not secret, but a secret that merely LOOKS like one of them still is
    let mut texts: Vec<(String, String)> = Vec::new();
    for (lvl, msg) in &logs {
        if *lvl <= log::Level::Debug {
            texts.push((format!("log record at {}", lvl), msg.clone()));
        }
    }
    if let exec::Res::Err(e) = &o.res {
        texts.push(("error Display".into(), e.msg.clone()));
        texts.push(("error Debug".into(), e.debug.clone()));
    }
    // a secret that is a substring of something the request itself carries (access key == secret prefix...) would be a false hit
    let carried = format!("{}{}{:?}", case.req.uri, latin1(&case.req.body.0), case.req.headers);
    if carried.contains(&pl.plan.entry.secret) {
        cc.class("secret-occurs-in-request-skipped");
        return Ok(());
    }
    // secrets this thread handled in EARLIER validations must not surface now either (a cache that talks when it evicts)
    let earlier: Vec<String> = RECENT_SECRETS.with(|r| {
        let mut r = r.borrow_mut();
        let snapshot: Vec<String> = r.iter().filter(|s| **s != pl.plan.entry.secret && !carried.contains(s.as_str())).cloned().collect();
        r.push_back(pl.plan.entry.secret.clone());
        if r.len() > 48 {
            r.pop_front();
        }
        snapshot
    });
    for s in &earlier {
        nd.push(("the secret key of an earlier validation on this thread".into(), s.clone()));
    }
    // ... nor the signing keys derived in them (a key that has just been replaced is still a key)
    let earlier_keys: Vec<[u8; 32]> = RECENT_KEYS.with(|r| {
        let mut r = r.borrow_mut();
        let snapshot: Vec<[u8; 32]> = r.iter().filter(|k| **k != chain[3]).cloned().collect();
        r.push_back(chain[3]);
        if r.len() > 48 {
            r.pop_front();
        }
        snapshot
    });
    for k in &earlier_keys {
        nd.push(("the signing key of an earlier validation on this thread (hex)".into(), hex_lower(k)));
        nd.push(("the signing key of an earlier validation on this thread (HEX)".into(), hex_upper(k)));
        nd.push(("the signing key of an earlier validation on this thread (base64)".into(), base64(k, false, true)));
    }
    cc.class(if refused { "refused" } else { "accepted" });
    cc.class_if(earlier.len() >= 16, "with->=16-earlier-secrets-on-this-thread");
    cc.class_if(case.cfg.service == "s3", "service-s3");
    cc.class_if(refused && presented != sig, "refused-with-wrong-signature");
    cc.nontrivial(digest_of(&[&case.req.digest().to_le_bytes(), &[pl.spoil], secret]));
    if let Some((origin, what)) = search(&texts, &nd) {
        return Err(Failure::new(&format!("leak:{}", origin.split(' ').next().unwrap_or("")), format!("{} contains {}", origin, what)));
    }
    Ok(())
}

pub fn subs() -> Vec<Box<dyn AnySub>> {
    vec![
        Box::new(Sub {
            name: "leaks-generated-requests",
            quick: 15_000,
            thorough: 250_000,
            strat: || (crate::gen::plan(crate::gen::PlanOpts { plain_spelling: true, ..crate::gen::PlanOpts::default() }), 0u8..7).prop_map(|(plan, spoil)| PlanLeak { plan, spoil }).boxed(),
            check: check_plan_leak,
        }),
        Box::new(Sub {
            name: "same-request-many-times-in-a-row",
            quick: 250,
            thorough: 5_000,
            strat: || {
                (crate::gen::plan(crate::gen::PlanOpts { plain_spelling: true, ..crate::gen::quiet_opts() }), 1u8..7, prop_oneof![3 => 2u16..13, 2 => 13u16..41, 1 => Just(101u16), 1 => Just(65u16)])
                    .prop_map(|(plan, spoil, times)| Burst { leak: PlanLeak { plan, spoil }, times })
                    .boxed()
            },
            check: check_burst,
        }),
        // the secret behind an access key is replaced (same access key, region, service and day), and a client that still
        // signs with the old one knocks: neither the old nor the new key material may surface
        Box::new(Sub {
            name: "secret-rotated-under-the-same-access-key",
            quick: 6_000,
            thorough: 100_000,
            strat: || {
                (crate::gen::plan(crate::gen::PlanOpts { plain_spelling: true, ..crate::gen::quiet_opts() }), "[A-Za-z0-9/+]{20,40}", "[A-Za-z0-9/+]{20,40}", 0u8..7, proptest::collection::vec(any::<bool>(), 2..6))
                    .prop_map(|(plan, s1, s2, spoil, order)| Rotation { leak: PlanLeak { plan, spoil }, secrets: [s1, s2], order })
                    .boxed()
            },
            check: check_rotation,
        }),
        Box::new(Sub {
        name: "leaks",
        quick: 12_000,
        thorough: 200_000,
        strat: || {
            let idx_of = |d: super::c13::Defect| -> u16 {
                let i = ALL_DEFECTS.iter().position(|x| *x == d).unwrap();
                ((i * 65536 + 65535) / ALL_DEFECTS.len()) as u16
            };
            use super::c13::Defect as D;
            let sig_shapes: Vec<u16> = [D::WrongSignature, D::SignatureNonHex, D::SignatureUpperWrong, D::SignatureTooLong, D::SignatureTooShort, D::SignatureEmpty].iter().map(|d| idx_of(*d)).collect();
            ("[A-Za-z0-9/+]{20,40}", any::<bool>(), prop_oneof![2 => Just(vec![]), 4 => (0usize..6).prop_map(move |i| vec![sig_shapes[i]]), 3 => proptest::collection::vec(any::<u16>(), 1..3)], any::<u8>())
                .prop_map(|(secret, q, sel, variant)| {
                    let mut d: Vec<_> = sel.into_iter().map(|x| ALL_DEFECTS[pick_idx(x, ALL_DEFECTS.len())]).collect();
                    d.sort();
                    d.dedup();
                    LeakCase { secret, req: DefectCase { query_carrier: q, defects: d, variant } }
                })
                .boxed()
        },
        check: check_leak,
    }),
    ]
}

/// All the renderings of one secret byte string that count as a leak.
pub fn needles(label: &str, b: &[u8]) -> Vec<(String, String)> {
    let mut v = Vec::new();
    if b.len() < 8 {
        return v;
    }
    let mut add = |kind: &str, s: String| v.push((format!("{} as {}", label, kind), s));
    add("raw", String::from_utf8_lossy(b).to_string());
    add("latin1", b.iter().map(|c| *c as char).collect());
    add("hex", hex_lower(b));
    add("HEX", hex_upper(b));
    for (url, pad) in [(false, true), (false, false), (true, true), (true, false)] {
        add("base64", base64(b, url, pad));
    }
    add("decimal list", b.iter().map(|c| c.to_string()).collect::<Vec<_>>().join(","));
    add("hex list", b.iter().map(|c| format!("{:x}", c)).collect::<Vec<_>>().join(","));
    add("0x list", b.iter().map(|c| format!("0x{:02x}", c)).collect::<Vec<_>>().join(","));
    v
}

fn strip_ws(s: &str) -> String {
    s.chars().filter(|c| !c.is_whitespace()).collect()
}

fn search(texts: &[(String, String)], needles: &[(String, String)]) -> Option<(String, String)> {
    for (origin, text) in texts {
        let compact = strip_ws(text);
        for (what, n) in needles {
            if n.len() < 8 {
                continue;
            }
            if text.contains(n.as_str()) || compact.contains(n.as_str()) {
                return Some((origin.clone(), what.clone()));
            }
        }
    }
    None
}

pub fn check_leak(lc: &LeakCase, cc: &mut CaseCtx) -> CheckResult {
    exec::enable_log_capture();
    let mut defects = lc.req.defects.clone();
    {
        use super::c13::Defect::*;
        if defects.contains(&Expired) && defects.contains(&Future) {
            defects.retain(|d| *d != Future);
        }
        if defects.contains(&Arity4) && defects.contains(&Arity6) {
            defects.retain(|d| *d != Arity6);
        }
        if defects.contains(&NoCarrier) && defects.contains(&BothCarriers) {
            defects.retain(|d| *d != BothCarriers);
        }
        super::c13::reduce_signature_defects(&mut defects);
    }
    // build the request signed under *this* secret
    let mut case = build(&lc.req, &defects);
    // re-sign by rebuilding with the secret: the C13 builder uses a fixed secret, so swap the key material consistently
    let old_secret = case.prov.keys[0].secret.clone();
    case.prov.keys[0].secret = lc.secret.clone();
    let a0 = analyze(&case);
    // make the presented signature the right one under the new secret unless a WrongSignature defect is wanted
    if let (Some(exp), Some(pres)) = (&a0.expected_sig, &a0.presented_sig) {
        let pres = latin1(pres);
        if !defects.iter().any(|d| d.rank() == R_SIGNATURE) && pres.len() == 64 {
            super::c01::replace_signature(&mut case.req, &pres, exp);
        }
    }
    let _ = old_secret;
    let a = analyze(&case);
    let (o, logs) = exec::with_logs(|| exec::run(&case));
    check_total(&o)?;
    if let exec::Res::Unrepresentable(_) = o.res {
        return Ok(());
    }
    // what must not appear
    let date8 = a.instant.map(|i| i.date8()).unwrap_or_else(|| "20150830".into());
    let chain = key_chain(lc.secret.as_bytes(), &date8, &case.cfg.region, &case.cfg.service);
    let mut nd = needles("secret key", lc.secret.as_bytes());
    let mut prefixed = b"AWS4".to_vec();
    prefixed.extend_from_slice(lc.secret.as_bytes());
    nd.extend(needles("prefixed secret", &prefixed));
    for (i, name) in ["kDate", "kRegion", "kService", "kSigning"].iter().enumerate() {
        nd.extend(needles(name, &chain[i]));
    }
    let wrong_sig = match (&a.expected_sig, &a.presented_sig) {
        (Some(e), Some(p)) => !p.eq_ignore_ascii_case(e.as_bytes()),
        _ => false,
    };
    if wrong_sig {
        let e = a.expected_sig.clone().unwrap();
        nd.push(("the correct signature of a refused request".into(), e.clone()));
        nd.push(("the correct signature of a refused request (upper case)".into(), e.to_ascii_uppercase()));
        if let Some(raw) = unhex(&e) {
            nd.push(("the correct signature (base64)".into(), base64(&raw, false, true)));
        }
    }
    // what is observable
    let mut texts: Vec<(String, String)> = Vec::new();
    for (lvl, msg) in &logs {
        if *lvl <= log::Level::Debug {
            texts.push((format!("log record at {}", lvl), msg.clone()));
        }
    }
    match &o.res {
        exec::Res::Err(e) => {
            texts.push(("error Display".into(), e.msg.clone()));
            texts.push(("error Debug".into(), e.debug.clone()));
        }
        exec::Res::Ok(p) => {
            texts.push(("returned principal/session Debug".into(), format!("{:?} {:?}", p.principal, p.session)));
        }
        _ => {}
    }
    // key construction paths that refuse the secret (too long for the capacity) must not talk about it either
    {
        let too_long = format!("{}{}", lc.secret, "-padding-that-makes-the-secret-exceed-forty-bytes");
        let (_, l1) = exec::with_logs(|| {
            // (a panic here is C06/C08's business, not a leak)
            let _ = std::panic::catch_unwind(|| {
                let a = KSecretKey::<44>::from_str(&too_long).map(|_| ()).map_err(|e| format!("{} {:?}", e, e));
                let b = KSecretKey::<8>::from_str(&lc.secret).map(|_| ()).map_err(|e| format!("{} {:?}", e, e));
                let c = KSecretKey::<64>::from_str(&lc.secret).map(|k| format!("{:?}", k.clone() == k)).map_err(|e| format!("{} {:?}", e, e));
                format!("{:?}{:?}{:?}", a, b, c)
            });
        });
        for (lvl, msg) in &l1 {
            if *lvl <= log::Level::Debug {
                texts.push((format!("log record at {} during key construction", lvl), msg.clone()));
            }
        }
        nd.extend(needles("over-long secret", too_long.as_bytes()));
    }
    // renderings of public values built from the same material
    if let Ok(ks) = KSecretKey::<44>::from_str(&lc.secret) {
        let date = exec::naive_date(&date8).unwrap_or_else(|| chrono::NaiveDate::from_ymd_opt(2015, 8, 30).unwrap());
        let kd = ks.to_kdate(date);
        let kr = kd.to_kregion(&case.cfg.region);
        let kv = kr.to_kservice(&case.cfg.service);
        let kg = kv.to_ksigning();
        texts.push(("KSecretKey Debug/Display".into(), format!("{:?} {:#?} {}", ks, ks, ks)));
        texts.push(("KDateKey Debug/Display".into(), format!("{:?} {:#?} {}", kd, kd, kd)));
        texts.push(("KRegionKey Debug/Display".into(), format!("{:?} {:#?} {}", kr, kr, kr)));
        texts.push(("KServiceKey Debug/Display".into(), format!("{:?} {:#?} {}", kv, kv, kv)));
        texts.push(("KSigningKey Debug/Display".into(), format!("{:?} {:#?} {}", kg, kg, kg)));
        let mut rb = GetSigningKeyResponse::builder();
        rb.signing_key(kg);
        if let Ok(resp) = rb.build() {
            texts.push(("GetSigningKeyResponse Debug".into(), format!("{:?} {:#?}", resp, resp)));
            let ar: scratchstack_aws_signature::auth::SigV4AuthenticatorResponse = resp.into();
            texts.push(("SigV4AuthenticatorResponse Debug".into(), format!("{:?} {:#?}", ar, ar)));
        }
        let gr = GetSigningKeyRequest::builder().access_key("AKIDEXAMPLE").request_date(date).region(case.cfg.region.as_str()).service(case.cfg.service.as_str()).build();
        if let Ok(gr) = gr {
            texts.push(("GetSigningKeyRequest Debug".into(), format!("{:?} {:#?}", gr, gr)));
        }
    }
    if let Ok(http_req) = exec::build_http(&case.req) {
        let (parts, body) = http_req.into_parts();
        let opts = SignatureOptions { s3: case.cfg.s3, url_encode_form: case.cfg.fold };
        let r = std::panic::catch_unwind(std::panic::AssertUnwindSafe(|| {
            let mut out = Vec::new();
            if let Ok((cr, _, _)) = CanonicalRequest::from_request_parts(parts, body, opts) {
                out.push(("CanonicalRequest Debug".to_string(), format!("{:?} {:#?}", cr, cr)));
                if let Ok(ap) = cr.get_auth_parameters(&NO_ADDITIONAL_SIGNED_HEADERS) {
                    out.push(("AuthParams / builder Debug".to_string(), format!("{:?}", ap)));
                }
                if let Ok(auth) = cr.get_authenticator(&NO_ADDITIONAL_SIGNED_HEADERS) {
                    out.push(("SigV4Authenticator Debug".to_string(), format!("{:?} {:#?}", auth, auth)));
                }
            }
            out
        }));
        if let Ok(v) = r {
            texts.extend(v);
        }
    }
    let refused_at = a.verdict().rank();
    cc.class(if o.res.is_ok() { "accepted" } else { "refused" });
    cc.class_if(wrong_sig && !o.res.is_ok(), "refused-with-wrong-signature");
    cc.class_if(logs.iter().any(|(l, _)| *l <= log::Level::Debug), "has-debug-log-records");
    cc.nontrivial(digest_of(&[lc.secret.as_bytes(), format!("{:?}{}", defects, lc.req.query_carrier).as_bytes()]));
    cc.sample(json!({"secret": lc.secret, "defects": format!("{:?}", defects), "carrier": if lc.req.query_carrier { "query" } else { "header" }, "refused_at_rule": refused_at,
        "texts_searched": texts.len(), "needles": nd.len(), "log_records": logs.len()}));
    if let Some((origin, what)) = search(&texts, &nd) {
        return Err(Failure::new(&format!("leak:{}", origin.split(' ').next().unwrap_or("")), format!("{} contains {}", origin, what)));
    }
    Ok(())
}
