//! C18 -- validation is deterministic and reentrant.

use super::c13::{build, DefectCase, ALL_DEFECTS};
use super::common::*;
use crate::engine::*;
use crate::exec;
use crate::gen::*;
use crate::model::verify::*;
use crate::types::*;
use proptest::prelude::*;
use proptest::strategy::ValueTree;
use proptest::test_runner::{Config, RngSeed, TestRunner};
use serde_json::json;
use std::sync::{Arc, Barrier};

pub const RULE: &str = "generated: a corpus of N requests (valid ones from the completeness generator on both carriers with all options, and defective ones from the C13 catalogue) with their configurations. The OUTCOME of one validation is (Ok | error kind, code, status; returned method, version, URI, headers, body; principal) -- messages are deliberately excluded, divergences in them are only counted. Oracle: outcome digests are equal (i) across 3 repetitions on one thread, (ii) across T in {2,4,8,16} threads released together on a barrier, each validating a different rotation of the corpus concurrently, and 8 threads hammering small groups of similar requests (one form body under ten charset labels, a request and its twins under other options, equally long uploads) for 150 (quick) / 3000 (thorough) rounds, (iii) in freshly spawned processes (fresh hash seeds; launched under differing environments: time zone, locale, RUST_LOG, AWS_* variables, an empty environment) which first run a single-threaded prelude (ascending server clocks, each request asked about a clock 0.4 s outside and 0.1 s inside its window, judged by the reference model in the worker) and whose 16 threads then start COLD, so their first validations race on the lazily initialised global regexes, and (iv) equal to the reference model's verdict where specified. (v) history independence on one thread: a request followed by up to six close relatives (one of 17 ingredients changed -- server region/service/clock/options, secret, token, access key, time, spelling, query, header, body, path, method, requirement; signed anew, or presented with the previous signature), each judged by the reference model; a disagreement that vanishes on a fresh thread is reported as history-dependent. (vi) pairs of different equal-length texts that collide under eleven cheap hash functions (found by birthday search), as path segment, parameter name/value and header value of consecutive requests. Limit: the thread schedule is the OS's, sampled not enumerated. Non-trivial: a request with >= 3 query parameters or >= 3 signed headers or >= 2 prefix-matching unsigned headers; distinct by request digest.";

pub fn subs() -> Vec<Box<dyn AnySub>> {
    vec![Box::new(Sub {
        name: "interleaved-on-one-thread",
        quick: 6_000,
        thorough: 100_000,
        strat: || {
            (proptest::collection::vec(super::c14::step(), 2..5), proptest::collection::vec(prop_oneof![12 => 0u8..8, 1 => 8u8..12], 1..24))
                .prop_map(|(steps, order)| Interleave { steps, order })
                .boxed()
        },
        check: check_interleave,
    }),
    // History independence on one thread: a request, then close relatives of it (one ingredient changed, signed
    // anew or presented with the previous signature, or the very same bytes under another configuration), each
    // judged by the reference model. Whatever an implementation remembers from one validation to the next, it
    // must not change any verdict.
    // two different texts of equal length that collide under a popular cheap hash (FNV-1a, FNV-1, CRC-32, djb2, sdbm, Java's
    // 31x+c, Adler-32, byte sum / xor, first+last+length): a memo that recognises its entries by such a hash hands the
    // second request the first one's result
    Box::new(EnumSub {
        name: "weak-hash-twins",
        exhaustive: false,
        list: |t| {
            let per = t.pick(6, 40) as usize;
            let mut out = Vec::new();
            for h in 0..WEAK_HASHES.len() {
                for (a, b) in weak_collisions(h, per) {
                    out.push(Twins { hash: WEAK_HASHES[h].0.to_string(), a, b });
                }
            }
            out
        },
        check: check_weak_twins,
    }),
    Box::new(Sub {
        name: "siblings-in-sequence",
        quick: 12_000,
        thorough: 200_000,
        strat: || {
            (plan(PlanOpts::default()), proptest::collection::vec((0u8..19, any::<u16>(), any::<bool>()), 1..7))
                .prop_map(|(plan, steps)| Siblings { plan, steps })
                .boxed()
        },
        check: check_siblings,
    })]
}

#[derive(Clone, Debug, serde::Serialize, serde::Deserialize)]
pub struct Twins {
    pub hash: String,
    pub a: String,
    pub b: String,
}

type WeakHash = fn(&[u8]) -> u32;
pub const WEAK_HASHES: &[(&str, WeakHash)] = &[
    ("FNV-1a 32", |s| s.iter().fold(0x811c9dc5u32, |h, c| (h ^ *c as u32).wrapping_mul(0x0100_0193))),
    ("FNV-1 32", |s| s.iter().fold(0x811c9dc5u32, |h, c| h.wrapping_mul(0x0100_0193) ^ *c as u32)),
    ("CRC-32", |s| {
        let mut crc = 0xffff_ffffu32;
        for c in s {
            crc ^= *c as u32;
            for _ in 0..8 {
                crc = if crc & 1 != 0 { (crc >> 1) ^ 0xedb8_8320 } else { crc >> 1 };
            }
        }
        !crc
    }),
    ("djb2", |s| s.iter().fold(5381u32, |h, c| h.wrapping_mul(33).wrapping_add(*c as u32))),
    ("sdbm", |s| s.iter().fold(0u32, |h, c| (*c as u32).wrapping_add(h << 6).wrapping_add(h << 16).wrapping_sub(h))),
    ("31x+c", |s| s.iter().fold(0u32, |h, c| h.wrapping_mul(31).wrapping_add(*c as u32))),
    ("Adler-32", |s| {
        let (mut a, mut b) = (1u32, 0u32);
        for c in s {
            a = (a + *c as u32) % 65_521;
            b = (b + a) % 65_521;
        }
        (b << 16) | a
    }),
    ("byte sum", |s| s.iter().fold(0u32, |h, c| h.wrapping_add(*c as u32))),
    ("byte xor", |s| s.iter().fold(0u32, |h, c| h ^ *c as u32)),
    ("first, last and length", |s| (s.first().copied().unwrap_or(0) as u32) << 16 | (s.last().copied().unwrap_or(0) as u32) << 8 | s.len() as u32 & 0xff),
    ("FNV-1a 32 folded to 16 bits", |s| {
        let h = s.iter().fold(0x811c9dc5u32, |h, c| (h ^ *c as u32).wrapping_mul(0x0100_0193));
        (h >> 16) ^ (h & 0xffff)
    }),
];

/// `n` pairs of different equal-length texts over [a-z0-9] with the same hash (birthday search, deterministic).
pub fn weak_collisions(h: usize, n: usize) -> Vec<(String, String)> {
    let f = WEAK_HASHES[h].1;
    let mut out = Vec::new();
    let mut x: u64 = 0x9e37_79b9_7f4a_7c15 ^ (h as u64) << 32;
    for len in [8usize, 6, 11, 5] {
        let mut seen: std::collections::HashMap<u32, String> = std::collections::HashMap::new();
        for _ in 0..400_000 {
            let mut t = String::with_capacity(len);
            for _ in 0..len {
                x = x.wrapping_mul(6364136223846793005).wrapping_add(1442695040888963407);
                t.push(b"abcdefghijklmnopqrstuvwxyz0123456789"[(x >> 33) as usize % 36] as char);
            }
            let k = f(t.as_bytes());
            match seen.get(&k) {
                Some(u) if *u != t => {
                    out.push((u.clone(), t));
                    if out.len() >= n {
                        return out;
                    }
                }
                Some(_) => {}
                None => {
                    seen.insert(k, t);
                }
            }
            if out.len() >= (n + 3) / 4 * (1 + [8usize, 6, 11, 5].iter().position(|l| *l == len).unwrap()) {
                break;
            }
        }
    }
    out
}

pub fn check_weak_twins(tw: &Twins, cc: &mut CaseCtx) -> CheckResult {
    if tw.a == tw.b || tw.a.len() != tw.b.len() {
        return Err(harness_bug("not a twin pair"));
    }
    let mk = |t: &str, s3: bool, query_carrier: bool| -> Option<Case> {
        let mut p = simple_plan(if query_carrier { crate::model::verify::Carrier::Query } else { crate::model::verify::Carrier::Header });
        p.logical.segments = vec![B::from("v1"), B::from(t), B::from("x")];
        p.logical.query = vec![(B::from(t), B::from("1")), (B::from("k"), B::from(t))];
        p.logical.headers.push(("x-twin".into(), vec![B::from(t)]));
        p.spec.signed_headers.push("x-twin".into());
        p.spec.signed_headers.sort();
        p.cfg.s3 = s3;
        p.build().ok().map(|b| b.case)
    };
    for (s3, qc) in [(false, false), (true, true)] {
        let (Some(ca), Some(cb)) = (mk(&tw.a, s3, qc), mk(&tw.b, s3, qc)) else { return Ok(()) };
        for (i, c) in [&ca, &cb, &ca, &cb].iter().enumerate() {
            let (a, o) = (analyze(c), exec::run(c));
            check_against_model(&a, &o).map_err(|f| {
                Failure::new(
                    &format!("weak-hash-twin:{}", f.sig),
                    format!("{} [request {} of the sequence a, b, a, b with a = {:?}, b = {:?}: equal length, equal {} hash]", f.msg, i + 1, tw.a, tw.b, tw.hash),
                )
            })?;
        }
    }
    cc.class("twin-pair");
    cc.nontrivial(digest_of(&[tw.a.as_bytes(), tw.b.as_bytes()]));
    cc.sample(json!({"hash": tw.hash, "a": tw.a, "b": tw.b}));
    Ok(())
}

#[derive(Clone, Debug, serde::Serialize, serde::Deserialize)]
pub struct Siblings {
    pub plan: Plan,
    /// (what changes, selector, sign anew?)
    pub steps: Vec<(u8, u16, bool)>,
}

/// One ingredient of the plan changed; None where the change does not apply.
fn vary(p: &Plan, kind: u8, x: u16) -> Option<(Plan, &'static str)> {
    let mut q = p.clone();
    let name = match kind {
        0 => {
            q.cfg.region = REGIONS[pick_idx(x, REGIONS.len())].to_string();
            "server-region"
        }
        1 => {
            q.cfg.service = SERVICES[pick_idx(x, SERVICES.len())].to_string();
            "server-service"
        }
        2 => {
            std::mem::swap(&mut q.cfg.region, &mut q.cfg.service);
            "region-and-service-exchanged"
        }
        3 => {
            let mut sc: Vec<char> = p.spec.secret.chars().collect();
            let n = sc.len();
            if n > 0 && (x % 2 == 0 || p.spec.secret.len() >= 40) {
                let i = if x % 4 == 0 { 0 } else { n - 1 };
                sc[i] = if sc[i] == 'x' { 'y' } else { 'x' };
            } else {
                sc.push('x');
            }
            q.spec.secret = sc.into_iter().collect();
            q.entry.secret = q.spec.secret.clone();
            "secret"
        }
        4 => {
            let t = match (&p.spec.token, x % 3) {
                (Some(_), 0) => None,
                (Some(t), _) => Some(format!("{}x", t)),
                (None, _) => Some("tok/en+2==".to_string()),
            };
            if p.spec.carrier == Carrier::Header && p.spec.signed_headers.iter().any(|h| h == "x-amz-security-token") && t.is_none() {
                return None;
            }
            q.spec.token = t.clone();
            q.entry.token = t;
            "token"
        }
        5 => {
            let d = [1i128, -1, 60, 3600, 86_400][x as usize % 5] * 1_000_000_000;
            let (i, st) = (p.instant.add_nanos(d), p.style);
            if !(2..=9998).contains(&i.year()) {
                return None;
            }
            q = q.with_time(i, st);
            "request-time"
        }
        6 => {
            q.cfg.s3 = !p.cfg.s3;
            "s3-option"
        }
        7 => {
            q.cfg.fold = !p.cfg.fold;
            "fold-option"
        }
        8 => {
            q.spelling = Spelling { version: 11, ..Spelling::default() };
            if q.spelling == p.spelling {
                return None;
            }
            "wire-spelling"
        }
        9 => {
            match q.logical.query.first_mut() {
                Some((_, v)) if x % 2 == 0 => v.0.push(b'x'),
                _ => q.logical.query.push((B::from("added"), B::from("1"))),
            }
            "query"
        }
        10 => {
            let n = q.logical.headers.len();
            if n < 2 {
                return None;
            }
            let i = 1 + pick_idx(x, n - 1);
            match q.logical.headers[i].1.first_mut() {
                Some(v) => v.0.push(b'x'),
                None => return None,
            }
            "header-value"
        }
        11 => {
            if p.form.is_some() {
                return None;
            }
            q.logical.body.0.push(b'x');
            "body"
        }
        12 => {
            q.cfg.now = p.cfg.now.add_nanos([86_400i128, -86_400, 901, -901][x as usize % 4] * 1_000_000_000);
            if !(2..=9998).contains(&q.cfg.now.year()) {
                return None;
            }
            "server-clock"
        }
        13 => {
            q.spec.access_key = format!("{}X", p.spec.access_key);
            q.entry.access_key = q.spec.access_key.clone();
            "access-key"
        }
        14 => {
            q.logical.segments.push(B::from("sub"));
            "path"
        }
        15 => {
            q.logical.method = if p.logical.method == "GET" { "POST".into() } else { "GET".into() };
            "method"
        }
        16 => {
            q.cfg.reqs.always.push("X-Newly-Required".into());
            "requirement-added"
        }
        18 => {
            // the server clock just inside the window's far edge (the caller asks about a clock just OUTSIDE it first)
            q.cfg.now = p.instant.add_nanos(if x % 2 == 0 { 899_900_000_000 } else { -899_900_000_000 });
            if !(2..=9998).contains(&q.cfg.now.year()) {
                return None;
            }
            "server-clock-just-inside-after-just-outside"
        }
        _ => "repeated",
    };
    Some((q, name))
}

pub fn check_siblings(sb: &Siblings, cc: &mut CaseCtx) -> CheckResult {
    let Ok(first) = sb.plan.build() else {
        cc.class("unsignable");
        return Ok(());
    };
    let judge = |case: &Case, what: &str, prev: &str| -> CheckResult {
        let (a, o) = (analyze(case), exec::run(case));
        if let exec::Res::Unrepresentable(_) = o.res {
            return Ok(());
        }
        check_against_model(&a, &o).map_err(|f| {
            if f.sig == "HARNESS" {
                return f;
            }
            // the same case with nothing before it: is the history to blame?
            let fresh = std::thread::scope(|s| s.spawn(|| check_against_model(&analyze(case), &exec::run(case)).is_ok()).join().unwrap_or(false));
            let tag = if fresh { "history-dependent" } else { "sibling" };
            let mut g = Failure::new(&format!("{}:{}:{}", tag, what, f.sig), format!("{} [{} -- after: {}]", f.msg, what, prev));
            if super::c01::escape_plus_in_path(case).is_some() && f.sig.contains("rejected-valid") {
                g = Failure::new(&format!("{}+literal-plus-in-path", g.sig), g.msg);
            }
            g
        })
    };
    judge(&first.case, "original", "nothing")?;
    let mut cur_plan = sb.plan.clone();
    let mut cur = first;
    let mut trail = vec!["original".to_string()];
    let mut applied = 0;
    for (kind, x, resign) in &sb.steps {
        let Some((np, name)) = vary(&cur_plan, *kind, *x) else { continue };
        let Ok(nb) = np.build() else { continue };
        if *kind == 18 {
            // first the same request under a server clock 0.5 s later / earlier, which puts it just outside the window
            let mut outside = nb.case.clone();
            outside.cfg.now = np.cfg.now.add_nanos(if x % 2 == 0 { 500_000_000 } else { -500_000_000 });
            judge(&outside, "server-clock-just-outside", trail.last().unwrap())?;
            trail.push("server-clock-just-outside".into());
        }
        let mut case = nb.case.clone();
        let label = if *resign {
            format!("{}-signed-anew", name)
        } else {
            // the previous signature on the changed request (for a configuration change: the previous request as it was)
            if !super::c01::replace_signature(&mut case.req, &nb.signed.signature, &cur.signed.signature) {
                continue;
            }
            format!("{}-with-previous-signature", name)
        };
        judge(&case, &label, trail.last().unwrap())?;
        cc.class(name);
        cc.class(if *resign { "signed-anew" } else { "previous-signature" });
        applied += 1;
        trail.push(label);
        if *resign {
            cur_plan = np;
            cur = nb;
        }
    }
    if applied > 0 {
        cc.nontrivial(digest_of(&[format!("{:?}", sb.steps).as_bytes(), &cur.case.req.digest().to_le_bytes()]));
        cc.sample(json!({"request": format!("{} {}", sb.plan.logical.method, cur.case.req.uri.chars().take(80).collect::<String>()), "sequence": trail}));
    }
    Ok(())
}

#[derive(Clone, Debug, serde::Serialize, serde::Deserialize)]
pub struct Interleave {
    pub steps: Vec<super::c14::Step>,
    /// which of the in-flight validations is polled next (cycled); values 8-11 mean: that one is DROPPED
    /// unfinished instead (its caller gave up), at most once per position of the list
    pub order: Vec<u8>,
}

/// Re-entrancy with the schedule owned by the harness: several validations are in flight on ONE thread,
/// each suspended inside its (pending) key lookup, and are polled in a generated order. Each must end
/// exactly as it does when run alone.
pub fn check_interleave(il: &Interleave, cc: &mut CaseCtx) -> CheckResult {
    use scratchstack_aws_signature::{sigv4_validate_request, SignatureOptions, NO_ADDITIONAL_SIGNED_HEADERS};
    use std::future::Future;
    use std::pin::Pin;
    use std::task::{Context, Poll};
    let mut cases: Vec<Case> = il.steps.iter().map(super::c14::step_case).collect();
    for c in cases.iter_mut() {
        c.cfg.reqs = Reqs::default();
        c.prov.ready_err = None;
        // every lookup really suspends, so the validations overlap
        c.prov.call_pending = c.prov.call_pending.max(1);
    }
    let mut inputs = Vec::new();
    for c in &cases {
        let Ok(h) = exec::build_http(&c.req) else { return Ok(()) };
        let Some(now) = exec::to_datetime(c.cfg.now) else { return Ok(()) };
        inputs.push((h, now));
    }
    let alone: Vec<exec::Outcome> = cases.iter().map(exec::run).collect();
    let mut provs: Vec<exec::Prov> = cases.iter().map(|c| exec::Prov::new(c.prov.clone())).collect();
    let mut results: Vec<Option<exec::Res>> = vec![None; cases.len()];
    let mut dropped = vec![false; cases.len()];
    let r = std::panic::catch_unwind(std::panic::AssertUnwindSafe(|| {
        let mut futs: Vec<Option<Pin<Box<dyn Future<Output = _> + '_>>>> = Vec::new();
        for ((c, p), (h, now)) in cases.iter().zip(provs.iter_mut()).zip(inputs.into_iter()) {
            let opts = SignatureOptions { s3: c.cfg.s3, url_encode_form: c.cfg.fold };
            futs.push(Some(Box::pin(sigv4_validate_request(h, &c.cfg.region, &c.cfg.service, p, now, &NO_ADDITIONAL_SIGNED_HEADERS, opts))));
        }
        let waker = noop_waker();
        let mut cx = Context::from_waker(&waker);
        let mut k = 0usize;
        let mut budget = 100_000;
        while futs.iter().any(|f| f.is_some()) && budget > 0 {
            budget -= 1;
            let code = il.order[k % il.order.len()] as usize;
            let want = code % futs.len();
            let drop_it = code >= 8 && k < il.order.len();
            k += 1;
            // next unfinished validation at or after `want`
            let idx = (0..futs.len()).map(|d| (want + d) % futs.len()).find(|i| futs[*i].is_some()).unwrap();
            if drop_it {
                futs[idx] = None;
                dropped[idx] = true;
                continue;
            }
            if let Poll::Ready(v) = futs[idx].as_mut().unwrap().as_mut().poll(&mut cx) {
                results[idx] = Some(exec::convert_result(v));
                futs[idx] = None;
            }
        }
    }));
    if let Err(p) = r {
        let loc = exec::take_panic_location().unwrap_or_default();
        return Err(Failure::new(&format!("panic:{}", loc), format!("interleaved validations panicked: {} @ {}", exec::panic_message(p), loc)));
    }
    let mut any_ok = false;
    for (i, res) in results.iter().enumerate() {
        if dropped[i] {
            continue;
        }
        let Some(res) = res else { return Err(Failure::new("hang", "an interleaved validation did not complete")) };
        let same = match (res, &alone[i].res) {
            (exec::Res::Ok(a), exec::Res::Ok(b)) => a.uri == b.uri && a.body == b.body && a.headers == b.headers,
            (exec::Res::Err(a), exec::Res::Err(b)) => a.kind == b.kind && a.status == b.status,
            _ => false,
        };
        any_ok |= res.is_ok();
        if !same {
            return Err(Failure::new(
                "interleaving-changes-outcome",
                format!("validation {} of {} in flight on one thread ended as {} but alone as {} (poll order {:?})", i, results.len(), res.short(), alone[i].res.short(), il.order),
            ));
        }
    }
    cc.class("interleaved");
    cc.class_if(any_ok, "with-accepted-request");
    cc.class_if(cases.len() >= 3, ">=3-in-flight");
    cc.class_if(dropped.iter().any(|d| *d), "with-a-validation-dropped-midway");
    cc.nontrivial(digest_of(&[format!("{:?}", il).as_bytes()]));
    if any_ok {
        cc.sample(json!({"in_flight": cases.len(), "poll_order": il.order, "outcomes": results.iter().map(|r| r.as_ref().map(|x| x.short().chars().take(60).collect::<String>())).collect::<Vec<_>>()}));
    }
    Ok(())
}

fn noop_waker() -> std::task::Waker {
    use std::task::{RawWaker, RawWakerVTable, Waker};
    fn clone(_: *const ()) -> RawWaker {
        RawWaker::new(std::ptr::null(), &VT)
    }
    fn noop(_: *const ()) {}
    static VT: RawWakerVTable = RawWakerVTable::new(clone, noop, noop, noop);
    unsafe { Waker::from_raw(RawWaker::new(std::ptr::null(), &VT)) }
}

pub fn corpus(seed: u64, n: usize) -> Vec<Case> {
    let mut runner = TestRunner::new(Config { rng_seed: RngSeed::Fixed(mix(seed, "c18-corpus", 0)), failure_persistence: None, ..Config::default() });
    let st_valid = plan(PlanOpts { rich_reqs: true, ..PlanOpts::default() });
    let st_def = (any::<bool>(), proptest::collection::vec(any::<u16>(), 1..3), any::<u8>());
    let st_dup = (plan(quiet_opts()), any::<u16>(), any::<bool>(), any::<bool>(), any::<bool>());
    let mut out = Vec::with_capacity(n);
    // large uploads of equal length and different content, validated one after the other (buffers get reused)
    for (i, fill) in [0x11u8, 0x22, 0x33, 0x44].iter().enumerate() {
        let mut p = simple_plan(if i % 2 == 0 { crate::model::verify::Carrier::Header } else { crate::model::verify::Carrier::Query });
        p.logical.method = "PUT".into();
        p.logical.body = B(vec![*fill; 70_000 + (i / 2) * 4096]);
        if let Ok(b) = p.build() {
            out.push(b.case);
        }
    }
    // one form body, many declared charsets (folding on): whatever each label makes of the bytes, it must make the
    // same of them every time, also while other threads are busy with other labels
    let charset_forms: Vec<Case> = ["utf-8", "iso-8859-1", "windows-1252", "utf-16le", "shift_jis", "koi8-r", "UTF-8", "utf-16be", "gbk", "utf8"]
        .iter()
        .enumerate()
        .filter_map(|(i, label)| {
            let mut p = simple_plan(if i % 3 == 0 { crate::model::verify::Carrier::Query } else { crate::model::verify::Carrier::Header });
            p.logical.method = "POST".into();
            p.cfg.fold = true;
            p.form = Some(vec![]);
            p.ct_override = Some(format!("application/x-www-form-urlencoded; charset={}", label));
            // raw bytes >= 0x80 in the body (valid UTF-8, and something else in every other encoding)
            let mut base = p.base();
            base.body = B(format!("name=caf\u{e9}&\u{fc}=v{}", i).into_bytes());
            crate::model::sign::sign(&base, &p.cfg, &p.spec).ok().map(|signed| Case { req: signed.req, cfg: p.cfg.clone(), prov: p.provider() })
        })
        .collect();
    while out.len() < n {
        if out.len() % 7 == 3 && !charset_forms.is_empty() {
            out.push(charset_forms[(out.len() / 7) % charset_forms.len()].clone());
        } else if out.len() % 3 != 2 {
            let p = st_valid.new_tree(&mut runner).unwrap().current();
            if let Ok(b) = p.build() {
                out.push(b.case);
                // a twin under the other canonicalisation options (same raw request target, re-signed): state
                // that leaks between validations with different configurations shows up as order dependence
                if out.len() % 2 == 0 {
                    let mut q = p.clone();
                    if out.len() % 4 == 0 {
                        q.cfg.s3 = !q.cfg.s3;
                    } else {
                        q.cfg.fold = !q.cfg.fold;
                    }
                    // keep the request target identical to the original's
                    if let Ok(signed) = crate::model::sign::sign(&b.base, &q.cfg, &q.spec) {
                        out.push(Case { req: signed.req, cfg: q.cfg.clone(), prov: q.provider() });
                    }
                }
            }
        } else if out.len() % 5 == 4 {
            // requests with duplicated authentication inputs (which of two Date headers wins must not depend on hash order)
            let (p, k, b1, b2, b3) = st_dup.new_tree(&mut runner).unwrap().current();
            let dc = super::c19::make_case(p, k, b1, b2, b3, 60);
            if let Some(case) = super::c19::build_case(&dc) {
                out.push(case);
            }
        } else {
            let (q, sel, variant) = st_def.new_tree(&mut runner).unwrap().current();
            let mut d: Vec<_> = sel.into_iter().map(|x| ALL_DEFECTS[pick_idx(x, ALL_DEFECTS.len())]).collect();
            d.sort();
            d.dedup();
            {
                use super::c13::Defect::*;
                if d.contains(&Expired) && d.contains(&Future) {
                    d.retain(|x| *x != Future);
                }
                if d.contains(&Arity4) && d.contains(&Arity6) {
                    d.retain(|x| *x != Arity6);
                }
                if d.contains(&NoCarrier) && d.contains(&BothCarriers) {
                    d.retain(|x| *x != BothCarriers);
                }
                super::c13::reduce_signature_defects(&mut d);
            }
            let dc = DefectCase { query_carrier: q, defects: d.clone(), variant };
            let mut case = build(&dc, &d);
            // several unsigned prefix-matching headers: which one an error names depends on map order
            case.cfg.reqs.prefixes = vec!["x-pre-".into()];
            for k in 0..3 {
                case.req.headers.push((format!("X-Pre-{}", k), B::from("v")));
            }
            out.push(case);
        }
    }
    // a header parameter that is never spelled canonically but occurs twice, in different letter case and with
    // different values: whatever the crate makes of it, it has to make the same of it every time
    let mut extra = Vec::new();
    for (i, c) in out.iter().enumerate() {
        if extra.len() >= 12 {
            break;
        }
        let Some(pos) = c.req.headers.iter().position(|(n, v)| n.eq_ignore_ascii_case("authorization") && v.0.starts_with(b"AWS4-HMAC-SHA256 ")) else { continue };
        let v = String::from_utf8_lossy(&c.req.headers[pos].1 .0).to_string();
        let name = ["Credential", "SignedHeaders", "Signature"][i % 3];
        if !v.contains(&format!("{}=", name)) {
            continue;
        }
        let lower = v.replacen(&format!("{}=", name), &format!("{}=", name.to_lowercase()), 1);
        let decoy = match i % 3 {
            0 => "AKIADECOY0000000/20150830/eu-west-1/service/aws4_request".to_string(),
            1 => "host;x-decoy".to_string(),
            _ => "0".repeat(64),
        };
        let mut c2 = c.clone();
        c2.req.headers[pos].1 = B::from(format!("{}, {}={}", lower, name.to_uppercase(), decoy).as_str());
        extra.push(c2);
    }
    out.extend(extra);
    out
}

/// (outcome digest, message digest)
pub fn outcome_digest(case: &Case) -> (u64, u64) {
    let o = exec::run(case);
    let mut v: Vec<u8> = Vec::new();
    let mut msg = 0u64;
    match &o.res {
        exec::Res::Ok(p) => {
            v.extend_from_slice(b"OK");
            v.extend_from_slice(p.method.as_bytes());
            v.push(p.version);
            v.extend_from_slice(p.uri.as_bytes());
            for (n, val) in &p.headers {
                v.extend_from_slice(n.as_bytes());
                v.push(0);
                v.extend_from_slice(&val.0);
                v.push(1);
            }
            v.extend_from_slice(&p.body.0);
            v.extend_from_slice(format!("{:?}", p.principal).as_bytes());
        }
        exec::Res::Err(e) => {
            v.extend_from_slice(format!("ERR{:?}{}{}", e.kind, e.code, e.status).as_bytes());
            msg = crate::model::crypto::fnv64(e.msg.as_bytes());
        }
        other => v.extend_from_slice(other.short().as_bytes()),
    }
    v.extend_from_slice(&(o.calls() as u32).to_le_bytes());
    (crate::model::crypto::fnv64(&v), msg)
}

fn digests(c: &[Case]) -> Vec<(u64, u64)> {
    c.iter().map(outcome_digest).collect()
}

/// Run the corpus on `threads` threads concurrently (each a different rotation); returns per-thread digests re-aligned to corpus order.
fn concurrent(c: &Arc<Vec<Case>>, threads: usize) -> Vec<Vec<(u64, u64)>> {
    let barrier = Arc::new(Barrier::new(threads));
    let mut hs = Vec::new();
    for t in 0..threads {
        let c = c.clone();
        let b = barrier.clone();
        hs.push(std::thread::spawn(move || {
            let n = c.len();
            let start = t * n / threads;
            b.wait();
            let mut out = vec![(0u64, 0u64); n];
            for k in 0..n {
                let i = (start + k) % n;
                out[i] = outcome_digest(&c[i]);
            }
            out
        }));
    }
    hs.into_iter().map(|h| h.join().unwrap_or_default()).collect()
}

/// worker: `verif __c18worker <seed> <n> <threads>` -- cold start, threads race on first use; prints one digest line
/// What a process does FIRST, single-threaded, before anything else has been validated in it: ascending server clocks, each
/// request asked about a clock just outside its window and then about one just inside (and the other way round). State
/// that only ever moves forward in a process (a high-water mark of the clock, a first-use initialisation) is fresh here and
/// nowhere else. Returns the number of answers that differ from the reference model's.
pub fn prelude() -> usize {
    let mut wrong = 0;
    for k in 0..12i64 {
        let mut p = simple_plan(if k % 2 == 0 { crate::model::verify::Carrier::Header } else { crate::model::verify::Carrier::Query });
        let t = crate::model::time::Instant::from_civil(2001, 1, 1 + k as u32, 12, 0, 0, 0);
        p = p.with_time(t, crate::model::time::TsStyle::BASIC_Z);
        let Ok(b) = p.build() else { continue };
        let edge: i128 = if k % 4 < 2 { 900_000_000_000 } else { -900_000_000_000 };
        let sign: i128 = if edge > 0 { 1 } else { -1 };
        // (offset from the window's edge in ns: positive = outside)
        let order: [i128; 4] = if k % 3 == 0 { [400_000_000, -100_000_000, 0, 900_000_000] } else { [-100_000_000, 400_000_000, -600_000_000, 1] };
        for d in order {
            let mut c = b.case.clone();
            c.cfg.now = t.add_nanos(edge + sign * d);
            let (a, o) = (analyze(&c), exec::run(&c));
            if check_against_model(&a, &o).is_err() {
                wrong += 1;
            }
        }
    }
    wrong
}

pub fn worker(seed: u64, n: usize, threads: usize) {
    let wrong = prelude();
    let c = Arc::new(corpus(seed, n));
    let per_thread = concurrent(&c, threads);
    let mut all_equal = true;
    for t in &per_thread {
        if t.iter().map(|x| x.0).collect::<Vec<_>>() != per_thread[0].iter().map(|x| x.0).collect::<Vec<_>>() {
            all_equal = false;
        }
    }
    let mut acc = Vec::new();
    for d in &per_thread[0] {
        acc.extend_from_slice(&d.0.to_le_bytes());
    }
    let mut macc = Vec::new();
    for d in &per_thread[0] {
        macc.extend_from_slice(&d.1.to_le_bytes());
    }
    println!("{:016x} {} {:016x} {}", crate::model::crypto::fnv64(&acc), if all_equal { "threads-agree" } else { "THREADS-DISAGREE" }, crate::model::crypto::fnv64(&macc), if wrong == 0 { "prelude-ok".to_string() } else { format!("PRELUDE-WRONG:{}", wrong) });
}

pub fn extra(ctx: &Ctx) {
    let n = ctx.tier.pick(2000, 20_000) as usize;
    let c = Arc::new(corpus(ctx.seed, n));
    let report = |sub: &str, idx: usize, what: String| {
        let f = Failure::new(&format!("nondeterministic:{}", sub), what);
        ctx.violation(sub, &c[idx], &f);
    };
    // (iv) against the model + classification
    let base = digests(&c);
    let mut msg_div = 0u64;
    for (_i, case) in c.iter().enumerate() {
        let a = analyze(case);
        let mut cc = CaseCtx::default();
        let nq = a.merged_pairs.len();
        let ns = a.signed_headers.len();
        let npre = case.req.headers.iter().filter(|(h, _)| h.to_ascii_lowercase().starts_with("x-pre-")).count();
        cc.class_if(nq >= 3, ">=3-query-params");
        cc.class_if(ns >= 3, ">=3-signed-headers");
        cc.class_if(npre >= 2, ">=2-prefix-matching-unsigned-headers");
        if nq >= 3 || ns >= 3 || npre >= 2 {
            cc.nontrivial(case.req.digest());
            cc.sample(case_sample(case, json!({"model": a.verdict().short()})));
        }
        if !a.verdict().is_specified() {
            cc.unspecified = true;
        } else {
            // (iv) the single-threaded outcome is the one the reference model specifies
            let o = exec::run(case);
            if let Err(f) = check_against_model(&a, &o) {
                if !f.sig.contains("literal-plus") {
                    ctx.violation("corpus", case, &Failure::new(&format!("outcome-differs-from-model:{}", f.sig), f.msg));
                    return;
                }
            }
        }
        ctx.record("corpus", cc);
    }
    // (i) repetitions on one thread
    for rep in 0..3 {
        let again = digests(&c);
        for i in 0..n {
            if again[i].0 != base[i].0 {
                report("repeat", i, format!("repetition {} of the same validation gave a different outcome", rep + 1));
                return;
            }
            if again[i].1 != base[i].1 {
                msg_div += 1;
            }
        }
    }
    // (ii) threads
    for threads in [2usize, 4, 8, 16] {
        let per = concurrent(&c, threads);
        for (t, d) in per.iter().enumerate() {
            for i in 0..n {
                if d[i].0 != base[i].0 {
                    report("threads", i, format!("thread {} of {} got a different outcome than the single-threaded run", t, threads));
                    return;
                }
                if d[i].1 != base[i].1 {
                    msg_div += 1;
                }
            }
        }
        let mut cc = CaseCtx::default();
        cc.class("thread-run");
        cc.nontrivial(mix(ctx.seed, "threads", threads as u64));
        ctx.record("threads", cc);
    }
    // (ii-b) hot spots: a handful of SIMILAR requests (one form under ten charset labels; neighbours in the corpus, i.e.
    // a request and its twin under other options; the equally long uploads) validated over and over by all threads at
    // once, so that whatever state they share inside the library is contended for thousands of times
    {
        let mut groups: Vec<(&'static str, Vec<usize>)> = Vec::new();
        let charset_idx: Vec<usize> = (0..n.min(80)).filter(|i| i % 7 == 3).collect();
        groups.push(("one-form-many-charsets", charset_idx));
        groups.push(("equally-long-uploads", (0..4.min(n)).collect()));
        for start in [4usize, 60, 200, 500, 1200] {
            if start + 6 <= n {
                groups.push(("corpus-neighbours", (start..start + 6).collect()));
            }
        }
        let rounds = ctx.tier.pick(150, 3000) as usize;
        let threads = 8usize;
        for (name, idx) in &groups {
            if idx.is_empty() {
                continue;
            }
            let group: Arc<Vec<Case>> = Arc::new(idx.iter().map(|i| c[*i].clone()).collect());
            let want: Arc<Vec<u64>> = Arc::new(idx.iter().map(|i| base[*i].0).collect());
            // uploads are expensive: fewer rounds
            let r = if *name == "equally-long-uploads" { rounds / 10 + 1 } else { rounds };
            let barrier = Arc::new(Barrier::new(threads));
            let mut hs = Vec::new();
            for t in 0..threads {
                let (g, w, b) = (group.clone(), want.clone(), barrier.clone());
                hs.push(std::thread::spawn(move || {
                    b.wait();
                    for round in 0..r {
                        for k in 0..g.len() {
                            let i = (t + k) % g.len();
                            if outcome_digest(&g[i]).0 != w[i] {
                                return Some((i, round));
                            }
                        }
                    }
                    None
                }));
            }
            let firsts: Vec<Option<(usize, usize)>> = hs.into_iter().map(|h| h.join().unwrap_or(None)).collect();
            let mut cc = CaseCtx::default();
            cc.class("hot-spot-run");
            cc.class(name);
            cc.nontrivial(mix(ctx.seed, name, idx[0] as u64));
            ctx.record("hot-spots", cc);
            if let Some((t, (i, round))) = firsts.iter().enumerate().find_map(|(t, f)| f.map(|x| (t, x))) {
                let f = Failure::new("nondeterministic:hot-spots", format!("{}: thread {} of {} got a different outcome than the single-threaded run in round {} ({} similar requests validated concurrently)", name, t, threads, round, idx.len()));
                ctx.violation("hot-spots", &c[idx[i]], &f);
                return;
            }
        }
    }
    // (iii) fresh processes, cold start with 16 racing threads
    let procs = ctx.tier.pick(8, 200);
    let nproc_corpus = ctx.tier.pick(400, 400) as usize;
    let small = Arc::new(corpus(ctx.seed, nproc_corpus));
    let small_base = digests(&small);
    let mut acc = Vec::new();
    for d in &small_base {
        acc.extend_from_slice(&d.0.to_le_bytes());
    }
    let want = format!("{:016x}", crate::model::crypto::fnv64(&acc));
    let exe = match std::env::current_exe() {
        Ok(e) => e,
        Err(e) => {
            ctx.inconclusive.lock().unwrap().push(format!("cannot find own executable: {}", e));
            return;
        }
    };
    let mut differing = 0;
    let mut thread_disagree = 0;
    let mut msg_digests = std::collections::BTreeSet::new();
    let mut children = Vec::new();
    for i in 0..procs {
        // "a pure function of the request, the server time, the configuration and the provider's answer":
        // the process environment is none of these, so the launches differ in it
        let mut cmd = std::process::Command::new(&exe);
        cmd.args(["__c18worker", &ctx.seed.to_string(), &nproc_corpus.to_string(), "16"]).stdout(std::process::Stdio::piped());
        match i % 8 {
            1 => {
                cmd.env("TZ", "Asia/Tokyo");
            }
            2 => {
                cmd.env("TZ", "America/Los_Angeles").env("LANG", "tr_TR.UTF-8").env("LC_ALL", "tr_TR.UTF-8");
            }
            3 => {
                cmd.env("RUST_LOG", "trace").env("RUST_BACKTRACE", "1");
            }
            4 => {
                cmd.env("AWS_REGION", "eu-west-1").env("AWS_DEFAULT_REGION", "eu-west-1").env("AWS_ACCESS_KEY_ID", "AKIDOTHER").env("AWS_SECRET_ACCESS_KEY", "other").env("AWS_SESSION_TOKEN", "t");
            }
            5 => {
                cmd.env_clear();
            }
            6 => {
                cmd.env("TZ", ":/nonexistent").env("SOURCE_DATE_EPOCH", "0").env("HOSTNAME", "other-host");
            }
            7 => {
                cmd.env("AWS_EC2_METADATA_DISABLED", "true").env("HTTP_PROXY", "http://127.0.0.1:9").env("RUST_LOG", "off");
            }
            _ => {}
        }
        for (k, v) in [("VERIF_EVAL_DIR", std::env::var("VERIF_EVAL_DIR").ok())] {
            if let Some(v) = v {
                cmd.env(k, v);
            }
        }
        children.push(cmd.spawn());
        if children.len() >= 4 {
            for ch in children.drain(..) {
                collect(ch, &want, &mut differing, &mut thread_disagree, &mut msg_digests, ctx);
            }
        }
    }
    for ch in children.drain(..) {
        collect(ch, &want, &mut differing, &mut thread_disagree, &mut msg_digests, ctx);
    }
    for i in 0..procs {
        let mut cc = CaseCtx::default();
        cc.class("cold-process-16-threads");
        cc.nontrivial(mix(ctx.seed, "proc", i));
        ctx.record("processes", cc);
    }
    ctx.extra(
        "determinism",
        json!({"corpus": n, "repetitions": 3, "thread_counts": [2, 4, 8, 16], "fresh_processes": procs, "process_corpus": nproc_corpus,
            "processes_with_differing_outcomes": differing, "processes_with_thread_disagreement": thread_disagree,
            "message_divergences_in_process": msg_div, "process_environments": "launch i uses variant i mod 8 of: unchanged; TZ=Asia/Tokyo; TZ=America/Los_Angeles + LANG/LC_ALL=tr_TR.UTF-8; RUST_LOG=trace; AWS_REGION/AWS_* credentials set; empty environment; TZ=:/nonexistent + SOURCE_DATE_EPOCH=0; proxy variables", "distinct_message_digests_across_processes": msg_digests.len(),
            "note": "message divergences are reported, not asserted: which of several unsigned prefix-matching headers an error names depends on hash order; the property compares outcome, kind and returned request"}),
    );
    if differing > 0 || thread_disagree > 0 {
        let f = Failure::new("nondeterministic:processes", format!("{} of {} fresh processes produced different outcomes ({} saw their own threads disagree)", differing, procs, thread_disagree));
        ctx.violation("processes", &json!({"seed": ctx.seed, "n": nproc_corpus}), &f);
    }
}

fn collect(
    ch: std::io::Result<std::process::Child>,
    want: &str,
    differing: &mut u64,
    thread_disagree: &mut u64,
    msg: &mut std::collections::BTreeSet<String>,
    ctx: &Ctx,
) {
    match ch.and_then(|c| c.wait_with_output()) {
        Ok(o) => {
            let s = String::from_utf8_lossy(&o.stdout).trim().to_string();
            let f: Vec<&str> = s.split(' ').collect();
            if f.len() != 4 {
                ctx.inconclusive.lock().unwrap().push(format!("worker process printed {:?}", s));
                return;
            }
            // the first validations of a fresh process, judged by the reference model inside the worker
            if f[0] != want || f[3] != "prelude-ok" {
                *differing += 1;
            }
            if f[1] != "threads-agree" {
                *thread_disagree += 1;
            }
            msg.insert(f[2].to_string());
        }
        Err(e) => ctx.inconclusive.lock().unwrap().push(format!("cannot run worker process: {}", e)),
    }
}
