//! C19 -- repeated authentication inputs are resolved by fixed, documented rules.

use super::common::*;
use crate::engine::*;
use crate::exec;
use crate::gen::*;
use crate::model::sign::sign;
use crate::model::time::render;
use crate::model::verify::*;
use crate::types::*;
use proptest::prelude::*;
use serde::{Deserialize, Serialize};
use serde_json::json;

pub const RULE: &str = "generated: a valid request in which ONE authentication input is duplicated with a DIFFERENT value, in either order: a second Authorization header (another AWS4 one or another scheme); a repeated Credential / SignedHeaders / Signature inside the header; repeated X-Amz-Credential / Date / SignedHeaders / Signature / Security-Token / Algorithm query parameters (in the URL, or URL + folded body); a second X-Amz-Date header, or a Date header next to X-Amz-Date; a second security-token header; or both carriers at once. The duplicate is inserted either before signing (so the signature covers both values) or after. Between two occurrences of a parameter inside the Authorization header there may be 0-1000 unknown parameters and empty elements. The reference model applies the documented selection (first Authorization header, last parameter inside it, first query value, first X-Amz-Date before any Date, first token; both carriers => refuse) and says whether the request must be accepted; when it is, the provider must have been asked for the access key and token of the selected input. Non-trivial: every specified case (each has a differing duplicate); must-accept and must-reject populations are reported per kind of duplicate; distinct by (duplicate kind, order, request digest).";

#[derive(Clone, Copy, Debug, Serialize, Deserialize, PartialEq, Eq)]
pub enum DupKind {
    AuthHeaderOtherScheme,
    AuthHeaderAws4Decoy,
    InnerCredential,
    InnerSignedHeaders,
    InnerSignature,
    QCredential,
    QDate,
    QSignedHeaders,
    QSignature,
    QToken,
    QAlgorithm,
    XAmzDateHeader,
    DateHeaderBesideXAmzDate,
    XAmzDateBesideDateHeader,
    TokenHeader,
    BothCarriers,
    /// header carrier with an X-Amz-Security-Token QUERY parameter carrying another token
    QueryTokenOnHeaderCarrier,
    /// query carrier (token in the query) with an X-Amz-Security-Token HEADER carrying another token, signed or not
    TokenHeaderOnQueryCarrier,
}

const KINDS: &[DupKind] = &[
    DupKind::AuthHeaderOtherScheme,
    DupKind::AuthHeaderAws4Decoy,
    DupKind::InnerCredential,
    DupKind::InnerSignedHeaders,
    DupKind::InnerSignature,
    DupKind::QCredential,
    DupKind::QDate,
    DupKind::QSignedHeaders,
    DupKind::QSignature,
    DupKind::QToken,
    DupKind::QAlgorithm,
    DupKind::XAmzDateHeader,
    DupKind::DateHeaderBesideXAmzDate,
    DupKind::XAmzDateBesideDateHeader,
    DupKind::TokenHeader,
    DupKind::BothCarriers,
    DupKind::QueryTokenOnHeaderCarrier,
    DupKind::TokenHeaderOnQueryCarrier,
];

#[derive(Clone, Debug, Serialize, Deserialize)]
pub struct DupCase {
    pub plan: Plan,
    pub kind: DupKind,
    /// the decoy comes before the genuine input
    pub decoy_first: bool,
    /// insert the decoy before signing (the signature then covers it) or after
    pub before_signing: bool,
    /// query duplicates: put the decoy into the folded body instead of the URL
    pub in_body: bool,
    pub decoy_delta_s: i16,
    /// parameters inside the Authorization header: this many unknown parameters (and empty pieces) between the two occurrences
    #[serde(default)]
    pub filler: u16,
}

pub fn subs() -> Vec<Box<dyn AnySub>> {
    vec![Box::new(Sub {
        name: "duplicates",
        quick: 60_000,
        thorough: 800_000,
        strat: || {
            let o = PlanOpts {
                logical: LogicalOpts { max_segments: 1, max_query: 2, max_headers: 2, body_class: 0, raw_segments: false },
                allow_s3: false,
                form_bodies: true,
                plain_spelling: true,
                ..PlanOpts::default()
            };
            let filler = prop_oneof![6 => Just(0u16), 2 => 1u16..40, 1 => 40u16..300, 1 => prop_oneof![Just(13u16), Just(14), Just(29), Just(30), Just(61), Just(62), Just(125), Just(126), Just(253), Just(254), Just(1000)]];
            (plan(o), any::<u16>(), any::<bool>(), any::<bool>(), any::<bool>(), prop_oneof![Just(60i16), Just(-60), Just(1), -800i16..800], filler)
                .prop_map(|(plan, k, decoy_first, before_signing, in_body, decoy_delta_s, filler)| DupCase { filler, ..make_case(plan, k, decoy_first, before_signing, in_body, decoy_delta_s) })
                .boxed()
        },
        check: check_dup,
    })]
}


/// Put the plan on the carrier the duplicate kind is about and keep the duplicated header out of the signed list.
pub fn make_case(plan: Plan, k: u16, decoy_first: bool, before_signing: bool, in_body: bool, decoy_delta_s: i16) -> DupCase {
    make_case_kind(plan, pick_idx(k, KINDS.len()), decoy_first, before_signing, in_body, decoy_delta_s)
}

pub fn make_case_kind(mut plan: Plan, kind_index: usize, decoy_first: bool, before_signing: bool, in_body: bool, decoy_delta_s: i16) -> DupCase {
                    let kind = KINDS[kind_index % KINDS.len()];
                    use DupKind::*;
                    // put the plan on the carrier the duplicate kind is about
                    let want_query = matches!(kind, QCredential | QDate | QSignedHeaders | QSignature | QToken | QAlgorithm | TokenHeaderOnQueryCarrier);
                    let want_header = matches!(kind, AuthHeaderOtherScheme | AuthHeaderAws4Decoy | InnerCredential | InnerSignedHeaders | InnerSignature | XAmzDateHeader | DateHeaderBesideXAmzDate | XAmzDateBesideDateHeader | TokenHeader | QueryTokenOnHeaderCarrier);
                    if want_query && plan.spec.carrier != Carrier::Query || want_header && plan.spec.carrier != Carrier::Header {
                        plan.spec.carrier = if want_query { Carrier::Query } else { Carrier::Header };
                        plan.spec.signed_headers.retain(|h| h != "x-amz-date" && h != "date" && h != "x-amz-security-token");
                        plan.spec.use_date_header = false;
                        if plan.spec.carrier == Carrier::Header {
                            plan.spec.signed_headers.push("x-amz-date".into());
                            plan.spec.signed_headers.sort();
                        }
                        plan.cfg.reqs = Reqs::default();
                    }
                    if matches!(kind, XAmzDateHeader | DateHeaderBesideXAmzDate | XAmzDateBesideDateHeader | TokenHeader) {
                        // keep the duplicated header out of the signed list so that the selection rule alone decides
                        plan.spec.signed_headers.retain(|h| h != "x-amz-date" && h != "date" && h != "x-amz-security-token");
                        plan.cfg.reqs = Reqs::default();
                        plan.spec.use_date_header = kind == XAmzDateBesideDateHeader;
                        // ... or, when the decoy is in place before signing, sign one, the other or both date headers:
                        // which of them is covered by the signature must not change which one supplies the timestamp
                        if matches!(kind, DateHeaderBesideXAmzDate | XAmzDateBesideDateHeader) {
                            let pick = decoy_delta_s.unsigned_abs() % 4;
                            // a header can be signed if it is there when the request is signed: the genuine one always is,
                            // the decoy only when it is inserted before signing
                            let (genuine, decoy) = if kind == XAmzDateBesideDateHeader { ("date", "x-amz-date") } else { ("x-amz-date", "date") };
                            if pick & 1 != 0 {
                                plan.spec.signed_headers.push(genuine.into());
                            }
                            if pick & 2 != 0 && before_signing {
                                plan.spec.signed_headers.push(decoy.into());
                            }
                            plan.spec.signed_headers.sort();
                        }
                    }
                    if kind == TokenHeaderOnQueryCarrier && before_signing && decoy_delta_s % 2 == 0 {
                        // the decoy header is there before signing and is listed in X-Amz-SignedHeaders
                        plan.spec.signed_headers.push("x-amz-security-token".into());
                        plan.spec.signed_headers.sort();
                        plan.spec.signed_headers.dedup();
                    }
                    if matches!(kind, TokenHeader | QToken | QueryTokenOnHeaderCarrier | TokenHeaderOnQueryCarrier) && plan.spec.token.is_none() {
                        plan.spec.token = Some("genuine/token+1==".into());
                        plan.entry.token = plan.spec.token.clone();
                    }
                    DupCase { plan, kind, decoy_first, before_signing, in_body, decoy_delta_s, filler: 0 }
                }

fn insert_header(req: &mut WireRequest, name: &str, value: &str, first: bool, beside: &str) {
    let pos = req.headers.iter().position(|(n, _)| n.eq_ignore_ascii_case(beside));
    let at = match (pos, first) {
        (Some(p), true) => p,
        (Some(p), false) => p + 1,
        (None, true) => 0,
        (None, false) => req.headers.len(),
    };
    req.headers.insert(at, (name.to_string(), B::from(value)));
}

fn insert_query(req: &mut WireRequest, fold: bool, in_body: bool, pair: &str, first: bool) {
    if in_body && fold {
        let mut b = req.body.0.clone();
        if first {
            let mut nb = pair.as_bytes().to_vec();
            if !b.is_empty() {
                nb.push(b'&');
                nb.extend_from_slice(&b);
            }
            b = nb;
        } else {
            if !b.is_empty() {
                b.push(b'&');
            }
            b.extend_from_slice(pair.as_bytes());
        }
        req.body = B(b);
        return;
    }
    let (p, q) = match req.uri.find('?') {
        Some(i) => (req.uri[..i].to_string(), req.uri[i + 1..].to_string()),
        None => (req.uri.clone(), String::new()),
    };
    let nq = if q.is_empty() {
        pair.to_string()
    } else if first {
        format!("{}&{}", pair, q)
    } else {
        format!("{}&{}", q, pair)
    };
    req.uri = format!("{}?{}", p, nq);
}

fn apply_dup(dc: &DupCase, req: &mut WireRequest, signed: bool) {
    use DupKind::*;
    let p = &dc.plan;
    let mut decoy_ts = render(p.instant.add_nanos(dc.decoy_delta_s as i128 * 1_000_000_000), p.style);
    if dc.decoy_delta_s.unsigned_abs() % 5 == 2 {
        // a date the reference parser must refuse (missing zone, field out of range, trailing character, impossible day):
        // if the rule selects it, the request has no usable date
        decoy_ts = ["20150830T123600", "20151330T123600Z", "20150830T123600Zx", "20150230T123600Z", "20150830T126000Z", "2015-08-30T12:36:00+01:60"][(dc.decoy_delta_s.unsigned_abs() / 5 % 6) as usize].to_string();
    }
    let enc = |s: &str| crate::model::canon::pct_encode(s.as_bytes());
    let decoy_cred = format!("AKIADECOY0000000/{}/{}/{}/aws4_request", p.instant.date8(), p.cfg.region, p.cfg.service);
    match dc.kind {
        AuthHeaderOtherScheme => {
            // another scheme, or a lone parameter as a gateway that splits list-valued headers at commas would deliver it
            let v = match dc.decoy_delta_s.unsigned_abs() % 6 {
                0 => "Basic dXNlcjpwYXNz".to_string(),
                1 => format!("Signature={}", "f".repeat(64)),
                2 => format!("Credential={}", decoy_cred),
                3 => "SignedHeaders=host;x-decoy".to_string(),
                4 => "Bearer token=abc".to_string(),
                _ => format!("Signature={}, Credential={}", "f".repeat(64), decoy_cred),
            };
            insert_header(req, "Authorization", &v, dc.decoy_first, "authorization")
        }
        AuthHeaderAws4Decoy => insert_header(
            req,
            "Authorization",
            &format!("AWS4-HMAC-SHA256 Credential={}, SignedHeaders=host, Signature={}", decoy_cred, "d".repeat(64)),
            dc.decoy_first,
            "authorization",
        ),
        InnerCredential | InnerSignedHeaders | InnerSignature => {
            if !signed {
                return; // the Authorization header exists only after signing
            }
            let empty = dc.decoy_delta_s % 3 == 0;
            let extra = match dc.kind {
                InnerCredential => format!("Credential={}", if empty { String::new() } else { decoy_cred.clone() }),
                InnerSignedHeaders => format!("SignedHeaders={}", if empty { "" } else { "host;x-decoy" }),
                _ => format!("Signature={}", if empty { String::new() } else { "e".repeat(64) }),
            };
            for (n, v) in req.headers.iter_mut() {
                if n.eq_ignore_ascii_case("authorization") {
                    let s = latin1(&v.0);
                    let (alg, rest) = s.split_once(' ').unwrap_or((s.as_str(), ""));
                    let mut fill = String::new();
                    for i in 0..dc.filler {
                        fill.push_str(&match (i + dc.decoy_delta_s.unsigned_abs()) % 7 {
                            0 => ", ".to_string(),
                            1 => format!("x{}={}, ", i, i),
                            2 => format!("Scope{}=, ", i),
                            // what two Authorization lines look like after an intermediary has joined them with ", "
                            3 if i % 2 == 0 => format!("AWS4-HMAC-SHA256 Credential={}, ", decoy_cred),
                            _ => format!("p{}=v, ", i),
                        });
                    }
                    // the comma before the second occurrence may be followed by tabs as well as spaces (RFC 9110 OWS)
                    let sep = [", ", ",\t", ", \t", " ,\t "][(dc.decoy_delta_s.unsigned_abs() % 4) as usize];
                    *v = B::from(if dc.decoy_first { format!("{} {}{}{}{}", alg, extra, sep, fill, rest) } else { format!("{} {}{}{}{}", alg, rest, sep, fill, extra) });
                }
            }
        }
        QCredential => insert_query(req, p.cfg.fold, dc.in_body, &format!("X-Amz-Credential={}", enc(&decoy_cred)), dc.decoy_first),
        QDate => insert_query(req, p.cfg.fold, dc.in_body, &format!("X-Amz-Date={}", enc(&decoy_ts)), dc.decoy_first),
        QSignedHeaders => insert_query(req, p.cfg.fold, dc.in_body, "X-Amz-SignedHeaders=host%3Bx-decoy", dc.decoy_first),
        QSignature => insert_query(req, p.cfg.fold, dc.in_body, &format!("X-Amz-Signature={}", "f".repeat(64)), dc.decoy_first),
        QToken => insert_query(req, p.cfg.fold, dc.in_body, "X-Amz-Security-Token=decoy%2Ftoken", dc.decoy_first),
        QAlgorithm => insert_query(req, p.cfg.fold, dc.in_body, "X-Amz-Algorithm=AWS4-HMAC-SHA512", dc.decoy_first),
        XAmzDateHeader => insert_header(req, "X-Amz-Date", &decoy_ts, dc.decoy_first, "x-amz-date"),
        DateHeaderBesideXAmzDate => insert_header(req, "Date", &decoy_ts, dc.decoy_first, "x-amz-date"),
        XAmzDateBesideDateHeader => insert_header(req, "X-Amz-Date", &decoy_ts, dc.decoy_first, "date"),
        TokenHeader => insert_header(req, "X-Amz-Security-Token", "decoy/token", dc.decoy_first, "x-amz-security-token"),
        QueryTokenOnHeaderCarrier => insert_query(req, p.cfg.fold, dc.in_body, "X-Amz-Security-Token=decoy%2Ftoken", dc.decoy_first),
        TokenHeaderOnQueryCarrier => insert_header(req, "X-Amz-Security-Token", "decoy/token", dc.decoy_first, "host"),
        BothCarriers => {
            if p.spec.carrier == Carrier::Header {
                // the other carrier's marker, with the proper value or an empty / foreign one
                let v = ["X-Amz-Algorithm=AWS4-HMAC-SHA256", "X-Amz-Algorithm=", "X-Amz-Algorithm", "X-Amz-Algorithm=AWS4-HMAC-SHA512", "X-Amz-Algorithm=aws4&X-Amz-Algorithm=AWS4-HMAC-SHA256"][(dc.decoy_delta_s.unsigned_abs() % 5) as usize];
                insert_query(req, p.cfg.fold, dc.in_body, v, dc.decoy_first);
            } else {
                // the header carrier's marker is ANY Authorization header: a SigV4 one, one of another scheme (as a proxy
                // or browser would add), an empty one, or another scheme FIRST and a SigV4 one for another identity after it
                let aws4 = format!("AWS4-HMAC-SHA256 Credential={}, SignedHeaders=host, Signature={}", decoy_cred, "d".repeat(64));
                match dc.decoy_delta_s.unsigned_abs() % 6 {
                    0 | 1 => insert_header(req, "Authorization", &aws4, dc.decoy_first, "host"),
                    2 => insert_header(req, "Authorization", "Basic dXNlcjpwYXNz", dc.decoy_first, "host"),
                    3 => insert_header(req, "Authorization", "Bearer abc.def", dc.decoy_first, "host"),
                    4 => insert_header(req, "Authorization", "", dc.decoy_first, "host"),
                    _ => {
                        insert_header(req, "Authorization", &aws4, dc.decoy_first, "host");
                        insert_header(req, "Authorization", "Basic dXNlcjpwYXNz", dc.decoy_first, "host");
                        if !dc.decoy_first {
                            // both insertions put the Basic header first; in this order the SigV4 one is moved in front of it
                            if let Some(p) = req.headers.iter().position(|(n, v)| n.eq_ignore_ascii_case("authorization") && v.0.starts_with(b"AWS4")) {
                                if p > 0 && req.headers[p - 1].0.eq_ignore_ascii_case("authorization") {
                                    req.headers.swap(p - 1, p);
                                }
                            }
                        }
                    }
                }
            }
        }
    }
}

/// The final request of a duplicate case (None when the plan cannot be signed).
pub fn build_case(dc: &DupCase) -> Option<Case> {
    use DupKind::*;
    let p = &dc.plan;
    let mut base = p.base();
    let inner = matches!(dc.kind, InnerCredential | InnerSignedHeaders | InnerSignature);
    let pre = dc.before_signing && !inner;
    if pre {
        // the date / token headers of the header carrier are added by the signer: for those kinds the
        // decoy goes in first and the order is fixed up afterwards
        apply_dup(dc, &mut base, false);
    }
    let Ok(signed) = sign(&base, &p.cfg, &p.spec) else {
        return None;
    };
    let mut req = signed.req;
    if pre {
        // for header duplicates inserted before signing, enforce the requested order relative to the genuine one
        let fix = |req: &mut WireRequest, name: &str, genuine: &str| {
            let idx: Vec<usize> = req.headers.iter().enumerate().filter(|(_, (n, _))| n.eq_ignore_ascii_case(name)).map(|(i, _)| i).collect();
            if idx.len() == 2 {
                let first_is_genuine = latin1(&req.headers[idx[0]].1 .0) == genuine;
                if first_is_genuine == dc.decoy_first {
                    req.headers.swap(idx[0], idx[1]);
                }
            }
        };
        match dc.kind {
            XAmzDateHeader => fix(&mut req, "x-amz-date", &p.spec.ts_text),
            TokenHeader => fix(&mut req, "x-amz-security-token", p.spec.token.as_deref().unwrap_or("")),
            _ => {}
        }
    } else {
        apply_dup(dc, &mut req, true);
    }
    Some(Case { req, cfg: p.cfg.clone(), prov: p.provider() })
}

pub fn check_dup(dc: &DupCase, cc: &mut CaseCtx) -> CheckResult {
    use DupKind::*;
    let _p = &dc.plan;
    let inner = matches!(dc.kind, InnerCredential | InnerSignedHeaders | InnerSignature);
    let pre = dc.before_signing && !inner;
    let Some(case) = build_case(dc) else {
        cc.class("unsignable");
        return Ok(());
    };
    let a = analyze(&case);
    let o = exec::run(&case);
    if let exec::Res::Unrepresentable(_) = o.res {
        cc.class("unrepresentable");
        return Ok(());
    }
    let kind_name: &'static str = match dc.kind {
        AuthHeaderOtherScheme => "auth-header+other-scheme",
        AuthHeaderAws4Decoy => "auth-header+aws4-decoy",
        InnerCredential => "inner-credential",
        InnerSignedHeaders => "inner-signed-headers",
        InnerSignature => "inner-signature",
        QCredential => "query-credential",
        QDate => "query-date",
        QSignedHeaders => "query-signed-headers",
        QSignature => "query-signature",
        QToken => "query-token",
        QAlgorithm => "query-algorithm",
        XAmzDateHeader => "x-amz-date-header",
        DateHeaderBesideXAmzDate => "date-beside-x-amz-date",
        XAmzDateBesideDateHeader => "x-amz-date-beside-date",
        TokenHeader => "token-header",
        BothCarriers => "both-carriers",
        QueryTokenOnHeaderCarrier => "query-token-on-header-carrier",
        TokenHeaderOnQueryCarrier => "token-header-on-query-carrier",
    };
    if !a.verdict().is_specified() {
        cc.unspecified = true;
        check_total(&o)?;
        return check_ok_implies_signature(&a, &o);
    }
    cc.class(kind_name);
    cc.class(if a.verdict().is_accept() { "must-accept" } else { "must-reject" });
    cc.class_if(pre, "decoy-covered-by-signature");
    cc.class_if(inner && dc.filler > 28, "over-28-parameters-between-the-occurrences");
    cc.nontrivial(digest_of(&[kind_name.as_bytes(), &[dc.decoy_first as u8, pre as u8, dc.in_body as u8], &case.req.digest().to_le_bytes()]));
    cc.sample(case_sample(&case, json!({"duplicate": kind_name, "decoy_first": dc.decoy_first, "inserted_before_signing": pre, "model": a.verdict().short(), "crate": o.res.short(),
        "provider_saw": o.call_queries().first().map(|q| format!("{:?}", q))})));
    check_against_model(&a, &o).map_err(|f| Failure::new(&format!("{}:{}", kind_name, f.sig), f.msg))
}
