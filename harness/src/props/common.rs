//! Shared oracle pieces and the sub-check registry plumbing.

use crate::engine::*;
use crate::exec::*;
use crate::model::verify::*;
use crate::types::*;
use proptest::strategy::BoxedStrategy;
use serde::{de::DeserializeOwned, Serialize};
use serde_json::Value;

pub trait AnySub: Sync + Send {
    fn name(&self) -> &'static str;
    fn run(&self, ctx: &Ctx, tier: Tier);
    fn replay(&self, ctx: &Ctx, case: &Value) -> bool;
}

/// A generated sub-check.
pub struct Sub<C: 'static> {
    pub name: &'static str,
    pub quick: u64,
    pub thorough: u64,
    pub strat: fn() -> BoxedStrategy<C>,
    pub check: fn(&C, &mut CaseCtx) -> CheckResult,
}

impl<C> AnySub for Sub<C>
where
    C: std::fmt::Debug + Clone + Serialize + DeserializeOwned + Send + Sync + 'static,
{
    fn name(&self) -> &'static str {
        self.name
    }
    fn run(&self, ctx: &Ctx, tier: Tier) {
        let n = scale(tier.pick(self.quick, self.thorough));
        ctx.run_prop(self.name, n, self.strat, self.check);
    }
    fn replay(&self, ctx: &Ctx, case: &Value) -> bool {
        ctx.replay_one::<C, _>(self.name, case, self.check)
    }
}

/// An enumerated sub-check (finite list built per tier).
pub struct EnumSub<C: 'static> {
    pub name: &'static str,
    pub exhaustive: bool,
    pub list: fn(Tier) -> Vec<C>,
    pub check: fn(&C, &mut CaseCtx) -> CheckResult,
}

impl<C> AnySub for EnumSub<C>
where
    C: std::fmt::Debug + Clone + Serialize + DeserializeOwned + Send + Sync + 'static,
{
    fn name(&self) -> &'static str {
        self.name
    }
    fn run(&self, ctx: &Ctx, tier: Tier) {
        ctx.run_enum(self.name, (self.list)(tier), self.exhaustive, self.check);
    }
    fn replay(&self, ctx: &Ctx, case: &Value) -> bool {
        ctx.replay_one::<C, _>(self.name, case, self.check)
    }
}

/// VERIF_SCALE (percent) lets a caller shrink or grow every generated count uniformly.
pub fn scale(n: u64) -> u64 {
    // the per-sub-check counts in the property modules are multiplied by 3 unless VERIF_SCALE says otherwise
    let pct: u64 = std::env::var("VERIF_SCALE").ok().and_then(|s| s.parse().ok()).unwrap_or(300);
    (n * pct / 100).max(1)
}

pub fn harness_bug(msg: impl Into<String>) -> Failure {
    Failure::new("HARNESS", msg)
}

/// No panic, no hang: holds for every input whatsoever.
pub fn check_total(o: &Outcome) -> CheckResult {
    match &o.res {
        Res::Panic(m) => Err(Failure::new(&format!("panic:{}", panic_site(m)), format!("validation panicked: {}", m))),
        Res::Hang => Err(Failure::new("hang", "validation future did not complete")),
        _ => Ok(()),
    }
}

/// reduce a panic message to its source location (stable across inputs)
pub fn panic_site(m: &str) -> String {
    match m.rfind(" @ ") {
        Some(p) => m[p + 3..].to_string(),
        None => "unknown".into(),
    }
}

/// kind -> (code, status) taxonomy; status never a success status.
pub fn check_taxonomy(e: &ErrInfo) -> CheckResult {
    let Some(k) = e.kind else {
        return Err(Failure::new("error-not-signature-error", format!("error is not a SignatureError: {}", e.msg)));
    };
    let (code, status) = k.code_status();
    if e.code != code || e.status != status {
        return Err(Failure::new(
            "taxonomy",
            format!("kind {:?} reported code {} status {}; documented {} {}", k, e.code, e.status, code, status),
        ));
    }
    Ok(())
}

/// "Ok implies the presented signature is the reference HMAC of the request as received" (sound on every input).
pub fn check_ok_implies_signature(a: &Analysis, o: &Outcome) -> CheckResult {
    if !o.res.is_ok() {
        return Ok(());
    }
    match a.verdict() {
        Verdict::Accept => Ok(()),
        Verdict::Unspecified { rank, .. } if *rank >= R_SIGNATURE => {
            // which canonical form applies is open, but a signature must have been checked against a key
            Ok(())
        }
        Verdict::Unspecified { .. } => {
            // accepted although some earlier rule is unspecified: still demand a matching signature where computable
            match (&a.expected_sig, &a.presented_sig) {
                (Some(e), Some(p)) if e.as_bytes() != p.as_slice() && !p.eq_ignore_ascii_case(e.as_bytes()) => Err(Failure::new(
                    "accepted-wrong-signature",
                    format!("accepted, but presented signature {} is not the reference {}", latin1(p), e),
                )),
                _ => Ok(()),
            }
        }
        Verdict::Reject { kinds, rank, why } => Err(Failure::new(
            &format!("accepted-must-reject@{}", rank),
            format!("accepted a request the model says must be refused ({:?} at rule {}: {})", kinds, rank, why),
        )),
    }
}

/// Full differential comparison of the crate's outcome with the model's verdict.
pub fn check_against_model(a: &Analysis, o: &Outcome) -> CheckResult {
    check_total(o)?;
    if let Res::Unrepresentable(_) = o.res {
        return Ok(());
    }
    match a.verdict() {
        Verdict::Accept => match &o.res {
            Res::Ok(_) => {}
            other => {
                return Err(Failure::new(
                    &format!("rejected-valid:{:?}", other.kind()),
                    format!("model: must accept; crate: {}", other.short()),
                ))
            }
        },
        Verdict::Reject { kinds, rank, why } => match &o.res {
            Res::Ok(_) => {
                return Err(Failure::new(
                    &format!("accepted-must-reject@{}", rank),
                    format!("model: must refuse with {:?} (rule {}: {}); crate accepted", kinds, rank, why),
                ))
            }
            Res::Err(e) => {
                check_taxonomy(e)?;
                if !kinds.contains(&e.kind.unwrap()) {
                    return Err(Failure::new(
                        &format!("wrong-kind@{}:{:?}", rank, e.kind.unwrap()),
                        format!("model: {:?} (rule {}: {}); crate: {:?} \"{}\"", kinds, rank, why, e.kind.unwrap(), e.msg),
                    ));
                }
            }
            _ => {}
        },
        Verdict::Unspecified { .. } => {
            check_ok_implies_signature(a, o)?;
            if let Res::Err(e) = &o.res {
                check_taxonomy(e)?;
            }
        }
    }
    check_provider_calls(a, o)
}

pub fn check_provider_calls(a: &Analysis, o: &Outcome) -> CheckResult {
    // tower contract: `call` only after `poll_ready` has returned Ready (a provider that needs the
    // readiness handshake -- a pool, a rate limiter -- fails or panics otherwise, refusing valid requests)
    if o.prov_log.iter().any(|e| matches!(e, ProvEvent::Call { after_ready: false, .. })) {
        return Err(Failure::new("provider-called-before-ready", format!("provider invoked without a preceding Ready from poll_ready: {:?}", o.prov_log)));
    }
    if let Some(n) = a.provider_calls {
        if o.calls() != n as usize {
            return Err(Failure::new(
                &format!("provider-calls:{}!={}", o.calls(), n),
                format!("provider called {} times, model says {} ({})", o.calls(), n, a.verdict().short()),
            ));
        }
        if n == 1 {
            if let (Some(q), Some(got)) = (&a.key_query, o.call_queries().first()) {
                if *got != q {
                    return Err(Failure::new("provider-args", format!("provider asked for {:?}, model says {:?}", got, q)));
                }
            }
        }
    }
    Ok(())
}

pub fn digest_of(parts: &[&[u8]]) -> u64 {
    let mut v = Vec::new();
    for p in parts {
        v.extend_from_slice(p);
        v.push(0xfe);
    }
    crate::model::crypto::fnv64(&v)
}

pub fn case_sample(case: &Case, extra: Value) -> Value {
    let mut headers = Vec::new();
    for (n, v) in &case.req.headers {
        headers.push(format!("{}: {}", n, v.escaped()));
    }
    let body = if case.req.body.0.len() > 120 {
        format!("<{} bytes> {}...", case.req.body.0.len(), escape_bytes(&case.req.body.0[..60]))
    } else {
        case.req.body.escaped()
    };
    serde_json::json!({
        "request": format!("{} {}", case.req.method, case.req.uri),
        "headers": headers,
        "body": body,
        "server": format!("region={} service={} now={}.{:09} s3={} fold={} reqs={:?}", case.cfg.region, case.cfg.service, case.cfg.now.compact(), case.cfg.now.nanos, case.cfg.s3, case.cfg.fold, case.cfg.reqs),
        "info": extra,
    })
}
