pub mod common;
pub mod c01;
pub mod c02;
pub mod c03;
pub mod c04;
pub mod c05;
pub mod c06;
pub mod c08;
pub mod c09;
pub mod c10;
pub mod c11;
pub mod c12;
pub mod c13;
pub mod c14;
pub mod c15;
pub mod c16;
pub mod c17;
pub mod c18;
pub mod c19;

use crate::engine::Ctx;
use common::AnySub;

pub struct Prop {
    pub id: &'static str,
    pub rule: &'static str,
    pub subs: fn() -> Vec<Box<dyn AnySub>>,
    pub assumptions: &'static [&'static str],
    /// optional hook for work that does not fit the sub-check mould (process spawning, ...)
    pub extra: Option<fn(&Ctx)>,
}

pub const COMMON_ASSUMPTIONS: &[&str] = &[
    "the reference model (own SHA-256/HMAC, canonicalisation, ISO-8601 parser, rule-ordered verifier) is correct; it is self-tested against FIPS/RFC 4231 vectors and AWS's published SigV4 test-suite outputs on every run",
    "inputs are limited to what http::Request can represent",
    "the scripted key provider derives KSigningKey objects through the crate's own KSecretKey (the only public constructor); C06 checks that derivation separately",
];

pub fn registry() -> Vec<Prop> {
    vec![
        Prop { id: "C01", rule: c01::RULE, subs: c01::subs, assumptions: &[], extra: None },
        Prop { id: "C02", rule: c02::RULE, subs: c02::subs, assumptions: &[], extra: None },
        Prop { id: "C03", rule: c03::RULE, subs: c03::subs, assumptions: &[], extra: None },
        Prop { id: "C04", rule: c04::RULE, subs: c04::subs, assumptions: &[], extra: None },
        Prop { id: "C05", rule: c05::RULE, subs: c05::subs, assumptions: &[], extra: None },
        Prop { id: "C06", rule: c06::RULE, subs: c06::subs, assumptions: &[], extra: None },
        Prop { id: "C08", rule: c08::RULE, subs: c08::subs, assumptions: &["abnormal termination that is not an unwinding panic (abort, stack overflow) would end the check process itself and be reported as exit 2 by the driver"], extra: None },
        Prop { id: "C09", rule: c09::RULE, subs: c09::subs, assumptions: &[], extra: None },
        Prop { id: "C11", rule: c11::RULE, subs: c11::subs, assumptions: &[], extra: None },
        Prop { id: "C12", rule: c12::RULE, subs: c12::subs, assumptions: &[], extra: None },
        Prop { id: "C13", rule: c13::RULE, subs: c13::subs, assumptions: &[], extra: None },
        Prop { id: "C14", rule: c14::RULE, subs: c14::subs, assumptions: &[], extra: None },
        Prop { id: "C15", rule: c15::RULE, subs: c15::subs, assumptions: &[], extra: None },
        Prop { id: "C16", rule: c16::RULE, subs: c16::subs, assumptions: &[], extra: None },
        Prop { id: "C17", rule: c17::RULE, subs: c17::subs, assumptions: &[], extra: None },
        Prop { id: "C18", rule: c18::RULE, subs: c18::subs, assumptions: &["thread interleavings are sampled by the OS scheduler, not enumerated"], extra: Some(c18::extra) },
        Prop { id: "C19", rule: c19::RULE, subs: c19::subs, assumptions: &[], extra: None },
        Prop { id: "C10", rule: c10::RULE, subs: c10::subs, assumptions: &[], extra: Some(c10::extra) },
    ]
}
