//! Concrete, serialisable test cases: what goes over the wire, what the server is configured with,
//! and how the key provider behaves. A replay file is one of these plus an expectation.

use crate::model::time::Instant;
use serde::{Deserialize, Deserializer, Serialize, Serializer};

/// Byte string that serialises as a readable escaped string (`\xNN` for non-printables).
#[derive(Clone, PartialEq, Eq, Hash, PartialOrd, Ord, Default)]
pub struct B(pub Vec<u8>);

impl B {
    pub fn escaped(&self) -> String {
        escape_bytes(&self.0)
    }
}

pub fn escape_bytes(b: &[u8]) -> String {
    let mut s = String::with_capacity(b.len());
    for &c in b {
        if c == b'\\' {
            s.push_str("\\\\");
        } else if (0x20..0x7f).contains(&c) {
            s.push(c as char);
        } else {
            s.push_str(&format!("\\x{:02x}", c));
        }
    }
    s
}

pub fn unescape_bytes(s: &str) -> Vec<u8> {
    let b = s.as_bytes();
    let mut out = Vec::with_capacity(b.len());
    let mut i = 0;
    while i < b.len() {
        if b[i] == b'\\' && i + 1 < b.len() {
            if b[i + 1] == b'\\' {
                out.push(b'\\');
                i += 2;
                continue;
            }
            if b[i + 1] == b'x' && i + 3 < b.len() {
                if let Ok(v) = u8::from_str_radix(&s[i + 2..i + 4], 16) {
                    out.push(v);
                    i += 4;
                    continue;
                }
            }
        }
        out.push(b[i]);
        i += 1;
    }
    out
}

impl std::fmt::Debug for B {
    fn fmt(&self, f: &mut std::fmt::Formatter<'_>) -> std::fmt::Result {
        write!(f, "b\"{}\"", self.escaped())
    }
}

impl Serialize for B {
    fn serialize<S: Serializer>(&self, s: S) -> Result<S::Ok, S::Error> {
        s.serialize_str(&self.escaped())
    }
}

impl<'de> Deserialize<'de> for B {
    fn deserialize<D: Deserializer<'de>>(d: D) -> Result<Self, D::Error> {
        let s = String::deserialize(d)?;
        Ok(B(unescape_bytes(&s)))
    }
}

impl From<&[u8]> for B {
    fn from(v: &[u8]) -> Self {
        B(v.to_vec())
    }
}
impl From<Vec<u8>> for B {
    fn from(v: Vec<u8>) -> Self {
        B(v)
    }
}
impl From<&str> for B {
    fn from(v: &str) -> Self {
        B(v.as_bytes().to_vec())
    }
}
impl From<String> for B {
    fn from(v: String) -> Self {
        B(v.into_bytes())
    }
}

/// A request exactly as handed to the library (through `http::Request`).
#[derive(Clone, Debug, PartialEq, Eq, Serialize, Deserialize, Default)]
pub struct WireRequest {
    pub method: String,
    /// request target: origin form ("/p?q"), "*", absolute form or authority form ("host:port")
    pub uri: String,
    /// 9, 10, 11, 2, 3
    pub version: u8,
    /// (name as spelled, value bytes) in arrival order
    pub headers: Vec<(String, B)>,
    pub body: B,
}

impl WireRequest {
    pub fn path(&self) -> &str {
        let pq = self.path_and_query();
        match pq.find('?') {
            Some(p) => &pq[..p],
            None => pq,
        }
    }
    pub fn query(&self) -> Option<&str> {
        let pq = self.path_and_query();
        pq.find('?').map(|p| &pq[p + 1..])
    }
    /// origin-form part of the target (strips scheme://authority for absolute form)
    pub fn path_and_query(&self) -> &str {
        let u = self.uri.as_str();
        if u.starts_with('/') || u == "*" {
            return u;
        }
        if let Some(p) = u.find("://") {
            let rest = &u[p + 3..];
            match rest.find(|c| c == '/' || c == '?') {
                Some(q) => &rest[q..],
                None => "",
            }
        } else {
            // authority form ("host:port", as with CONNECT): no path, no query
            ""
        }
    }
    pub fn header_first(&self, name_lc: &str) -> Option<&B> {
        self.headers.iter().find(|(n, _)| n.eq_ignore_ascii_case(name_lc)).map(|(_, v)| v)
    }
    pub fn has_header(&self, name_lc: &str) -> bool {
        self.header_first(name_lc).is_some()
    }
    pub fn digest(&self) -> u64 {
        let mut v = Vec::new();
        v.extend_from_slice(self.method.as_bytes());
        v.push(0);
        v.extend_from_slice(self.uri.as_bytes());
        v.push(self.version);
        for (n, b) in &self.headers {
            v.extend_from_slice(n.as_bytes());
            v.push(1);
            v.extend_from_slice(&b.0);
            v.push(2);
        }
        v.extend_from_slice(&self.body.0);
        crate::model::crypto::fnv64(&v)
    }
}

/// Declared signed-header requirements and the construction route used for the real object.
#[derive(Clone, Debug, PartialEq, Eq, Serialize, Deserialize, Default)]
pub struct Reqs {
    pub always: Vec<String>,
    pub if_in_request: Vec<String>,
    pub prefixes: Vec<String>,
    /// 0 = SliceSignedHeaderRequirements::new, 1 = VecSignedHeaderRequirements::new,
    /// 2 = VecSignedHeaderRequirements::default() + add_* calls,
    /// 3 = VecSignedHeaderRequirements::new with surplus entries that are removed again (remove_* in another spelling),
    /// 4 = default() + add_* of surplus and declared entries, surplus removed again
    pub route: u8,
}

#[derive(Clone, Debug, PartialEq, Eq, Serialize, Deserialize)]
pub struct ServerConfig {
    pub region: String,
    pub service: String,
    pub now: Instant,
    pub s3: bool,
    pub fold: bool,
    pub reqs: Reqs,
}

impl Default for ServerConfig {
    fn default() -> Self {
        ServerConfig {
            region: "us-east-1".into(),
            service: "service".into(),
            now: Instant { secs: 1440938160, nanos: 0 },
            s3: false,
            fold: false,
            reqs: Reqs::default(),
        }
    }
}

/// SignatureError kinds (plus the two that wrap foreign values).
#[derive(Clone, Copy, Debug, PartialEq, Eq, Hash, Serialize, Deserialize, PartialOrd, Ord)]
pub enum Kind {
    ExpiredToken,
    IO,
    InternalServiceError,
    InvalidBodyEncoding,
    InvalidClientTokenId,
    InvalidContentType,
    InvalidRequestMethod,
    IncompleteSignature,
    InvalidURIPath,
    MalformedQueryString,
    MissingAuthenticationToken,
    SignatureDoesNotMatch,
}

impl Kind {
    pub const ALL: [Kind; 12] = [
        Kind::ExpiredToken,
        Kind::IO,
        Kind::InternalServiceError,
        Kind::InvalidBodyEncoding,
        Kind::InvalidClientTokenId,
        Kind::InvalidContentType,
        Kind::InvalidRequestMethod,
        Kind::IncompleteSignature,
        Kind::InvalidURIPath,
        Kind::MalformedQueryString,
        Kind::MissingAuthenticationToken,
        Kind::SignatureDoesNotMatch,
    ];
    /// Documented (code, status) of each kind -- written out from the documentation, not read from the crate.
    pub fn code_status(self) -> (&'static str, u16) {
        match self {
            Kind::ExpiredToken => ("ExpiredToken", 403),
            Kind::IO => ("InternalFailure", 500),
            Kind::InternalServiceError => ("InternalFailure", 500),
            Kind::InvalidBodyEncoding => ("InvalidBodyEncoding", 400),
            Kind::InvalidClientTokenId => ("InvalidClientTokenId", 403),
            Kind::InvalidContentType => ("InvalidContentType", 403),
            Kind::InvalidRequestMethod => ("InvalidRequestMethod", 400),
            Kind::IncompleteSignature => ("IncompleteSignature", 400),
            Kind::InvalidURIPath => ("InvalidURIPath", 400),
            Kind::MalformedQueryString => ("MalformedQueryString", 400),
            Kind::MissingAuthenticationToken => ("MissingAuthenticationToken", 400),
            Kind::SignatureDoesNotMatch => ("SignatureDoesNotMatch", 403),
        }
    }
}

/// What the provider answers for a key lookup.
#[derive(Clone, Debug, PartialEq, Eq, Serialize, Deserialize)]
pub enum Answer {
    /// look the access key / token up in `keys` and derive the signing key for the date, region and
    /// service asked for (what a real provider does)
    Lookup,
    /// fail with this SignatureError kind and message
    SigErr(Kind, String),
    /// fail with an error that is not a SignatureError
    Foreign(String),
}

#[derive(Clone, Debug, PartialEq, Eq, Serialize, Deserialize)]
pub struct KeyEntry {
    pub access_key: String,
    /// None: entry matches only requests without token; Some(t): only requests with exactly this token
    pub token: Option<String>,
    pub secret: String,
    /// derive the key for another (date8, region, service) than the one asked for: a provider that
    /// hands out a key the request was *not* signed with (C01 key mutations)
    pub derive_as: Option<(String, String, String)>,
    pub principal: PrincipalSpec,
    pub session: Vec<(String, String)>,
}

#[derive(Clone, Debug, PartialEq, Eq, Serialize, Deserialize, Default)]
pub enum PrincipalSpec {
    #[default]
    Empty,
    User { partition: String, account: String, path: String, name: String },
    Role { partition: String, account: String, role: String, session: String },
    Service { name: String, region: Option<String>, suffix: String },
    /// role + service
    Two { account: String, role: String, service: String },
    Federated { account: String, name: String },
    Root { account: String },
    Canonical { id: String },
}

/// Scripted behaviour of the key provider for one validation.
#[derive(Clone, Debug, PartialEq, Eq, Serialize, Deserialize)]
pub struct ProviderScript {
    pub keys: Vec<KeyEntry>,
    /// poll_ready returns Pending this many times before Ready
    pub ready_pending: u8,
    /// poll_ready fails (after the pendings) with this answer instead of becoming ready
    pub ready_err: Option<Answer>,
    /// the call's future returns Pending this many times before its answer
    pub call_pending: u8,
    pub answer: Answer,
}

impl Default for ProviderScript {
    fn default() -> Self {
        ProviderScript { keys: vec![], ready_pending: 0, ready_err: None, call_pending: 0, answer: Answer::Lookup }
    }
}

/// Query the provider receives.
#[derive(Clone, Debug, PartialEq, Eq, Serialize, Deserialize, Hash)]
pub struct KeyQuery {
    pub access_key: String,
    pub token: Option<String>,
    pub date8: String,
    pub region: String,
    pub service: String,
}

/// One complete end-to-end case.
#[derive(Clone, Debug, PartialEq, Eq, Serialize, Deserialize)]
pub struct Case {
    pub req: WireRequest,
    pub cfg: ServerConfig,
    pub prov: ProviderScript,
}
