#!/usr/bin/env python3
"""Rewrites the table of DESIGN.md §12.6 (between COSTTABLE markers) from `verif list`, the quick evidence under
evidence/ and the thorough summary under evidence-thorough/SUMMARY.txt."""
import json,os,re,subprocess
V=os.path.dirname(os.path.dirname(os.path.abspath(__file__)))
subs={}
out=subprocess.run([f"{V}/.build/target/release/verif","list"],capture_output=True,text=True).stdout
for l in out.splitlines():
    if ':' in l:
        k,v=l.split(':',1); subs[k.strip()]=v.strip()
subs['C07']="trace (cttrace binary): per request a baseline traced twice, one-character variants at the listed positions, tail / other-replacement / same-byte-sum / exchanged / upper-case-hex variants; every second request with trace logging rendered; traced refusal is the N-th of its process"
thor={}
p=f"{V}/evidence-thorough/SUMMARY.txt"
if os.path.exists(p):
    for l in open(p):
        m=re.match(r'^(C\d\d) exit=(\d+) wall=(\d+)s .*?evaluations=(\d+) distinct_nontrivial=(\d+)',l)
        if m: thor[m.group(1)]=(m.group(2),m.group(3),m.group(4),m.group(5))
rows=["| property | sub-checks (as registered) | quick: wall, cases, distinct non-trivial | thorough: exit, wall (incl. libFuzzer where applicable), cases, distinct non-trivial |","|---|---|---|---|"]
for i in range(1,20):
    k=f"C{i:02d}"
    q=''
    ep=f"{V}/evidence/{k}.json"
    if os.path.exists(ep):
        e=json.load(open(ep)); c=e.get('coverage',{})
        q=f"{e.get('wall_s','?')} s, {c.get('evaluations','?')}, {c.get('distinct_nontrivial','?')}"
    t=thor.get(k)
    ts=f"exit {t[0]}, {t[1]} s, {t[2]}, {t[3]}" if t else "(not measured)"
    rows.append(f"| {k} | {subs.get(k,'')} | {q} | {ts} |")
d=open(f"{V}/DESIGN.md").read()
a,b='<!-- COSTTABLE:BEGIN -->','<!-- COSTTABLE:END -->'
if a in d and b in d:
    i=d.index(a)+len(a); j=d.index(b)
    d=d[:i]+"\n"+"\n".join(rows)+"\n"+d[j:]
    open(f"{V}/DESIGN.md","w").write(d)
    print(len(rows)-2,"rows")
else:
    print("markers not found")
