#!/usr/bin/env python3
"""Regenerates /verif/MANIFEST.json from the table below (kept in one place so the manifest is always valid)."""
import json, os, sys
HERE = os.path.dirname(os.path.dirname(os.path.abspath(__file__)))

NOTE = ("trusted base: the independent reference model in harness/src/model (self-tested on every run against FIPS 180-4 / "
        "RFC 4231 vectors and the 28 AWS SigV4 test-suite outputs shipped in the repository), proptest's generators and "
        "shrinker, the http crate as the definition of the input domain; sampling never establishes absence")

# id -> (technique, level text, design ref, extra note)
CHECKS = {
 "C02": ("property-based differential testing: reference SigV4 signer + model verdict vs crate verdict, metamorphic respelling",
         "generated logical requests are spelled for the wire in many admissible ways, signed by an independent reference signer on either carrier and must be accepted; tens of thousands (quick) to about a million (thorough) distinct non-trivial cases per run with shrinking to a minimal request",
         "DESIGN.md §5 C02"),
}
PENDING = {}

def main():
    props = [json.loads(l) for l in open(os.path.join(HERE, "properties.jsonl"))]
    checks, na = [], []
    for p in props:
        i = p["id"]
        if i in CHECKS:
            tech, text, ref = CHECKS[i]
            checks.append({
                "property_id": i,
                "quick_cmd": f"./check {i} --tier quick",
                "thorough_cmd": f"./check {i} --tier thorough",
                "evidence_file": f"/verif/evidence/{i}.json",
                "replay_cmd_template": f"./check {i} --replay {{path}}",
                "engine": "verif-harness",
                "level_claimed": {"category": "exploration", "text": text, "design_ref": ref},
                "level_note": NOTE,
                "technique": tech,
            })
        else:
            na.append({"property_id": i, "reason": PENDING.get(i, "check not built yet (work in progress; see DESIGN.md §5 for the planned generated check)")})
    m = {
        "version": 1,
        "setup_cmd": "./check --setup",
        "hooks": {
            "guard": "none (no source hooks; the harness enables the crate's pre-existing cargo feature 'unstable', which only widens visibility)",
            "enable": "harness/Cargo.toml depends on /repo by path with features = [\"unstable\"]; every ./check invocation rebuilds it from /repo's working tree",
            "baseline_off_cmd": "cd /repo && cargo test --workspace --lib --no-fail-fast --offline",
            "source_commits": [],
            "add_only": True,
        },
        "engines": [
            {"name": "verif-harness", "path": "/verif/harness", "serves_properties": sorted(CHECKS),
             "kind_free_text": "Rust: independent SigV4 reference model + proptest strategies + exhaustive enumerators + scripted tower key provider + replay; cargo-fuzz targets under harness/fuzz for the thorough tier"},
        ],
        "checks": checks,
        "not_applicable": na,
        "notes": "Exit codes: 0 held, 1 violation (VIOLATION line + replay file), 2 inconclusive (build failure, harness self-test failure). VERIF_SEED seeds every generator; VERIF_SCALE (percent) scales generated counts. Genuine defects found and repaired are listed in known_findings.json ('fixed' entries suppress nothing).",
    }
    json.dump(m, open(os.path.join(HERE, "MANIFEST.json"), "w"), indent=1)
    print("MANIFEST.json:", len(checks), "checks,", len(na), "not_applicable")

if __name__ == "__main__":
    main()
