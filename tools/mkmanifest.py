#!/usr/bin/env python3
"""Regenerates /verif/MANIFEST.json from the table below (kept in one place so the manifest is always valid)."""
import json, os, sys
HERE = os.path.dirname(os.path.dirname(os.path.abspath(__file__)))

NOTE = ("trusted base: the independent reference model in harness/src/model (self-tested on every run against FIPS 180-4 / "
        "RFC 4231 vectors and the 28 AWS SigV4 test-suite outputs shipped in the repository), proptest's generators and "
        "shrinker, the http crate as the definition of the input domain; sampling never establishes absence")

# id -> (technique, level text, design ref, extra note)
CHECKS = {
 "C01": ("property-based mutation testing against an independent reference signer/verifier (oracle: Ok => presented signature is the reference HMAC of the request as received), incl. accepted-original-then-edited-twin sequences",
         "each run signs tens of thousands of generated requests with the reference signer and applies one of ~30 single-component edits (every signature position included); anything the crate accepts must be acceptable to the model; failures shrink to a minimal request+edit",
         "DESIGN.md §5 C01"),
 "C02": ("property-based differential testing: reference SigV4 signer + model verdict vs crate verdict, metamorphic respelling",
         "generated logical requests are spelled for the wire in many admissible ways, signed by an independent reference signer on either carrier and must be accepted; tens of thousands (quick) to about a million (thorough) distinct non-trivial cases per run with shrinking to a minimal request",
         "DESIGN.md §5 C02"),
 "C03": ("grammar-based generation of credential strings + differential oracle on verdict, error kind and provider call log; configuration-switch sequences; direct fuzzing of prevalidate",
         "near-miss credential scopes signed under the foreign scope's own key (the scripted provider even hands that key out) must be refused by the scope rule with zero provider calls; correct scopes must reach the provider with exactly the model's arguments",
         "DESIGN.md §5 C03"),
 "C04": ("exhaustive enumeration of whole-second clock offsets and nanosecond neighbours of both bounds + generated (instant, offset, rendering) triples against i128 reference arithmetic",
         "the window predicate is decided on every second in [-20min,+20min] at boundary server instants, on both bounds to the nanosecond, and on random instants in many renderings; each request is validly signed so only the timestamp can decide",
         "DESIGN.md §5 C04"),
 "C05": ("property-based differential testing over (requirement set, header multiset, signed list) with correctly signed requests; model-based operation sequences for VecSignedHeaderRequirements",
         "requests are correctly signed over whatever list they carry, so acceptance hinges only on the requirement rules; the three container routes and mixed-case declarations are all generated",
         "DESIGN.md §5 C05"),
 "C06": ("exhaustive enumeration (secret lengths x capacities, calendar days) + generated inputs and generated sequences of consecutive derivations compared byte-for-byte with an independent HMAC-SHA256 chain, with and without a trace-level logger",
         "every length/capacity pair and the calendar edge cases are enumerated completely; random secrets, dates, regions and services are compared with the model's own SHA-256/HMAC on all ten derivation paths",
         "DESIGN.md §5 C06"),
 "C07": ("metamorphic trace comparison: ptrace single-stepped instruction-address traces of the whole validation under a byte-wise early-exit memcmp/bcmp, over generated (request, key, first-wrong-position) variants",
         "for each generated request the trace of refusing a wrong signature must be identical for every first-wrong position (17 positions quick, all 64 thorough, plus tail, other-replacement, same-byte-sum and exchanged-characters variants); decides control-flow independence on this build, not microarchitectural timing",
         "DESIGN.md §5 C07"),
 "C08": ("property-based robustness testing with panic capture: arbitrary and oversized requests, post-signing mutations, direct calls of every public operation",
         "no-panic is asserted over arbitrary request shapes, 64-200 KiB folded bodies, near-limit URIs, every charset label and direct API calls with hostile arguments; thorough tier adds a libFuzzer campaign",
         "DESIGN.md §5 C08"),
 "C09": ("exhaustive enumeration of bytes, escapes and short segment sequences + generated paths, differential against a reference normal form, with idempotence and respelling metamorphic checks",
         "the finite sub-spaces named by the property are enumerated completely at the level of the path canonicaliser; random paths and an end-to-end confirmation complement them",
         "DESIGN.md §5 C09"),
 "C10": ("exhaustive enumeration of bytes and prefix-related orderings + generated multisets under permutation/respelling, differential against a reference, cross-process determinism",
         "canonical query equality with the reference, permutation/respelling invariance, multiset preservation, and identical output across freshly spawned processes (different hash seeds)",
         "DESIGN.md §5 C10"),
 "C11": ("metamorphic property-based testing: one header edit applied to an accepted reference-signed request, old signature kept; reference canonical header block decides",
         "both directions are asserted: edits that leave the canonical header block unchanged must stay valid, all others must be refused",
         "DESIGN.md §5 C11"),
 "C12": ("property-based differential testing with two client semantics (signed-as-folded / signed-verbatim) x server option x content-type variants x body edits",
         "which of the two possible signatures is accepted pins whether the body was folded or hashed verbatim, for every content-type/charset variant the model specifies",
         "DESIGN.md §5 C12"),
 "C13": ("exhaustive pairs/triples of injected defects + random defect subsets; oracle: kind of the lowest-ranked defect (reference model), message-skeleton comparison, documented kind->code/status table",
         "all pairs (quick) and triples (thorough) of 31 defect classes on both carriers are enumerated; the taxonomy is checked on every error value and on constructed values of all 12 variants",
         "DESIGN.md §5 C13"),
 "C14": ("stateful (history-based) property testing with a scripted tower::Service provider and a harness-owned executor (generated readiness/pending schedules, eight foreign error types, abandoned validations)",
         "histories of up to 40 validations share one provider whose readiness, pending states and failures are generated; call counts, ordering, arguments, error pass-through and absence of state leaks are invariants after every step",
         "DESIGN.md §5 C14"),
 "C15": ("round-trip property testing of returned (Parts, body, principal, session) against what was submitted / what the provider supplied",
         "every accepted generated request is compared field by field with its submission; the folded case compares parameter multisets and the canonical path",
         "DESIGN.md §5 C15"),
 "C16": ("exhaustive enumeration of two-digit field values / separators / fraction lengths + mutated and random strings against an independent ISO-8601 parser; end-to-end pinning of the instant at the window edge",
         "accept/reject and the exact instant are compared with a reference parser on both carriers; the stable-API pin (accepted at exactly 900 s, refused 1 ns further) fixes the instant to the nanosecond",
         "DESIGN.md §5 C16"),
 "C17": ("property-based search of every observable text (captured log records, errors, Debug/Display of all public values) for 11 encodings of generated high-entropy key material",
         "generated secrets, all derived keys and the model-computed correct signature of refused requests are searched for in everything the library prints or logs at debug level or above",
         "DESIGN.md §5 C17"),
 "C18": ("differential repetition: outcome digests across repetitions, 2-16 concurrent threads (barrier start), fresh cold-start processes under differing environments; harness-scheduled interleaving of in-flight validations on one thread; model-judged sequences of sibling requests (history independence)",
         "a generated corpus is validated repeatedly, concurrently and in fresh processes whose threads race on the lazily initialised globals; interleavings are sampled by the OS scheduler, not enumerated",
         "DESIGN.md §5 C18"),
 "C19": ("property-based differential testing of duplicated authentication inputs (16 kinds, both orders, inside or outside the signature) against the reference selection rules",
         "for each kind of duplicate both the must-accept and the must-reject population are generated; acceptance additionally checks the access key / token the provider saw",
         "DESIGN.md §5 C19"),
}
PENDING = {}

def main():
    props = [json.loads(l) for l in open(os.path.join(HERE, "properties.jsonl"))]
    checks, na = [], []
    for p in props:
        i = p["id"]
        if i in CHECKS:
            tech, text, ref = CHECKS[i]
            checks.append({
                "property_id": i,
                "quick_cmd": f"./check {i} --tier quick",
                "thorough_cmd": f"./check {i} --tier thorough",
                "evidence_file": f"/verif/evidence/{i}.json",
                "replay_cmd_template": f"./check {i} --replay {{path}}",
                "engine": "verif-harness",
                "level_claimed": {"category": "exploration", "text": text, "design_ref": ref},
                "level_note": NOTE,
                "technique": tech,
            })
        else:
            na.append({"property_id": i, "reason": PENDING.get(i, "check not built yet (work in progress; see DESIGN.md §5 for the planned generated check)")})
    m = {
        "version": 1,
        "setup_cmd": "./check --setup",
        "hooks": {
            "guard": "none (no source hooks; the harness enables the crate's pre-existing cargo feature 'unstable', which only widens visibility)",
            "enable": "harness/Cargo.toml depends on /repo by path with features = [\"unstable\"]; every ./check invocation rebuilds it from /repo's working tree",
            "baseline_off_cmd": "cd /repo && cargo test --workspace --lib --no-fail-fast --offline",
            "source_commits": [],
            "add_only": True,
        },
        "engines": [
            {"name": "verif-harness", "path": "/verif/harness", "serves_properties": sorted(CHECKS),
             "kind_free_text": "Rust: independent SigV4 reference model + proptest strategies + exhaustive enumerators + scripted tower key provider + replay; cargo-fuzz targets under harness/fuzz for the thorough tier"},
        ],
        "checks": checks,
        "not_applicable": na,
        "notes": "Exit codes: 0 held, 1 violation (VIOLATION line + replay file), 2 inconclusive (build failure, harness self-test failure). VERIF_SEED seeds every generator; VERIF_SCALE (percent) scales generated counts. Genuine defects found and repaired are listed in known_findings.json ('fixed' entries suppress nothing).",
    }
    json.dump(m, open(os.path.join(HERE, "MANIFEST.json"), "w"), indent=1)
    print("MANIFEST.json:", len(checks), "checks,", len(na), "not_applicable")

if __name__ == "__main__":
    main()
