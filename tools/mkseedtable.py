#!/usr/bin/env python3
"""Rewrites the seeded-change table in DESIGN.md (between the SEEDTABLE markers) from seeded/*/meta.json."""
import json, os, re
V = os.path.dirname(os.path.dirname(os.path.abspath(__file__)))
rows = ["| seeded change | what was changed | needs to manifest | quick checks that report it |", "|---|---|---|---|"]
for n in sorted(os.listdir(os.path.join(V, "seeded"))):
    mp = os.path.join(V, "seeded", n, "meta.json")
    if not os.path.exists(mp):
        continue
    m = json.load(open(mp))
    det = m.get("detected_by_quick", [])
    t = m["property"]
    dets = ", ".join(("**%s**" % d) if d == t else d for d in det) or "(none)"
    rows.append("| %s | %s | %s | %s |" % (n, m["change"].replace("|", "\\|"), m["needs_to_manifest"].replace("|", "\\|"), dets))
p = os.path.join(V, "DESIGN.md")
s = open(p).read()
a = s.index("<!-- SEEDTABLE:BEGIN -->")
b = s.index("<!-- SEEDTABLE:END -->")
s = s[:a] + "<!-- SEEDTABLE:BEGIN -->\n" + "\n".join(rows) + "\n" + s[b:]
open(p, "w").write(s)
print(len(rows) - 2, "rows")
