#!/bin/bash
# tools/multiseed.sh [seeds...] -- every quick check under several seeds on the current tree; prints anything that is not exit 0
cd "$(dirname "$0")/.."
SEEDS=${@:-1 2 3 7 42}
cp -r evidence .build/evidence-backup-multiseed 2>/dev/null
for s in $SEEDS; do
  for i in C01 C02 C03 C04 C05 C06 C08 C09 C10 C11 C12 C13 C14 C15 C16 C17 C18 C19; do
    out=$(VERIF_SEED=$s ./check $i 2>&1); rc=$?
    [ $rc -ne 0 ] && { echo "seed=$s $i exit=$rc"; echo "$out" | grep -E "VIOLATION|check=|INCONCLUSIVE" | head -5; }
  done
  echo "seed $s done"
done
rm -rf evidence && mv .build/evidence-backup-multiseed evidence
