#!/usr/bin/env python3
"""Evaluate the checks against a seeded change.

  tools/seedeval.py <patch.diff> [--ids C01,C02,...] [--tier quick|thorough] [--skip-tests]

Applies the patch to /repo's working tree (git apply), optionally runs the repository's baseline
tests (the change must keep them green), runs the named checks (default: all claimed in
MANIFEST.json), prints which ones raise a VIOLATION, and ALWAYS restores /repo (git checkout -- .)
and the committed evidence files afterwards. Nothing is committed anywhere.
"""
import json, os, shutil, subprocess, sys, tempfile, time

VERIF = os.path.dirname(os.path.dirname(os.path.abspath(__file__)))
REPO = "/repo"


def sh(cmd, cwd=None, timeout=None, env=None):
    p = subprocess.run(cmd, shell=True, cwd=cwd, stdout=subprocess.PIPE, stderr=subprocess.STDOUT, text=True, timeout=timeout, env=env)
    return p.returncode, p.stdout


def main():
    args = sys.argv[1:]
    if not args:
        print(__doc__)
        return 2
    patch = os.path.abspath(args[0])
    ids = None
    tier = "quick"
    skip_tests = False
    i = 1
    while i < len(args):
        if args[i] == "--ids":
            i += 1
            ids = args[i].split(",")
        elif args[i] == "--tier":
            i += 1
            tier = args[i]
        elif args[i] == "--skip-tests":
            skip_tests = True
        i += 1
    man = json.load(open(os.path.join(VERIF, "MANIFEST.json")))
    if ids is None:
        ids = [c["property_id"] for c in man["checks"]]
    rc, out = sh("git status --porcelain --untracked-files=no", cwd=REPO)
    if out.strip():
        print("refusing: /repo has uncommitted changes:\n" + out)
        return 2
    ev_backup = tempfile.mkdtemp(prefix="evidence-backup-", dir=os.path.join(VERIF, ".build"))
    shutil.copytree(os.path.join(VERIF, "evidence"), os.path.join(ev_backup, "evidence"))
    replays_before = set(os.listdir(os.path.join(VERIF, "replays"))) if os.path.isdir(os.path.join(VERIF, "replays")) else set()
    result = {"patch": patch, "tier": tier, "checks": {}}
    try:
        rc, out = sh(f"git apply --whitespace=nowarn '{patch}'", cwd=REPO)
        if rc != 0:
            print("patch does not apply:\n" + out)
            return 2
        if not skip_tests:
            rc, out = sh("cargo test --workspace --lib --no-fail-fast --offline 2>&1 | grep -E '^test result|FAILED|failed' | head", cwd=REPO, timeout=900)
            result["baseline"] = out.strip()
            print("baseline tests with the change:", out.strip())
        env = dict(os.environ)
        env.setdefault("VERIF_SEED", "0")
        for pid in ids:
            t0 = time.time()
            rc, out = sh(f"./check {pid} --tier {tier}", cwd=VERIF, timeout=3600, env=env)
            viol = [l for l in out.splitlines() if l.startswith("VIOLATION")]
            reason = [l.strip() for l in out.splitlines() if l.strip().startswith("check=")]
            result["checks"][pid] = {"exit": rc, "violations": len(viol), "first": (reason[0][:300] if reason else ""), "wall_s": round(time.time() - t0, 1)}
            flag = "DETECTED" if rc == 1 else ("inconclusive" if rc == 2 else "silent")
            print(f"  {pid}: exit={rc} {flag} {reason[0][:220] if reason else ''}")
    finally:
        sh("git checkout -- .", cwd=REPO)
        # restore evidence written from the changed tree, drop replay files produced by this evaluation
        shutil.rmtree(os.path.join(VERIF, "evidence"), ignore_errors=True)
        shutil.copytree(os.path.join(ev_backup, "evidence"), os.path.join(VERIF, "evidence"))
        shutil.rmtree(ev_backup, ignore_errors=True)
        rp = os.path.join(VERIF, "replays")
        if os.path.isdir(rp):
            for f in set(os.listdir(rp)) - replays_before:
                os.remove(os.path.join(rp, f))
    detected = [k for k, v in result["checks"].items() if v["exit"] == 1]
    print("DETECTED BY:", ",".join(detected) if detected else "(none)")
    print("JSON:", json.dumps(result))
    return 0


if __name__ == "__main__":
    sys.exit(main())
