#!/usr/bin/env python3
"""Detection matrix for the seeded changes kept under /verif/seeded/.

  tools/seedmatrix.py [--only C04-1,C10-2] [--ids C01,C02,...] [--lanes 4] [--tier quick] [--with-c07] [--target-only]

For every /verif/seeded/<name>/patch.diff: copy /repo's HEAD into a scratch directory outside /repo and
/verif, apply the patch there, build a scratch copy of the harness against it and run the checks' quick
tier with the outputs redirected (VERIF_EVAL_DIR) so that neither /repo nor the committed evidence is
touched. Writes /verif/seeded/<name>/result.json and prints a summary. Scratch directories (and their
build output) are removed afterwards. This is an evaluation aid; the registered checks in MANIFEST.json
always run against /repo itself.
"""
import json, os, shutil, subprocess, sys, time
from concurrent.futures import ThreadPoolExecutor

VERIF = os.path.dirname(os.path.dirname(os.path.abspath(__file__)))
SCRATCH = os.environ.get("SEED_SCRATCH", "/tmp/seedmatrix")


def sh(cmd, cwd=None, timeout=None, env=None):
    p = subprocess.run(cmd, shell=True, cwd=cwd, stdout=subprocess.PIPE, stderr=subprocess.STDOUT, text=True, timeout=timeout, env=env)
    return p.returncode, p.stdout


def prepare_lane(lane):
    d = os.path.join(SCRATCH, f"lane{lane}")
    shutil.rmtree(d, ignore_errors=True)
    os.makedirs(d)
    sh(f"git -C /repo archive HEAD | tar -x -C {d}/repo --one-top-level=repo --strip-components=0 2>/dev/null || (mkdir -p {d}/repo && git -C /repo archive HEAD | tar -x -C {d}/repo)")
    sh(f"mkdir -p {d}/harness && rsync -a --exclude fuzz/target --exclude fuzz/corpus {VERIF}/harness/ {d}/harness/")
    ct = open(f"{d}/harness/Cargo.toml").read().replace('path = "/repo"', f'path = "{d}/repo"')
    open(f"{d}/harness/Cargo.toml", "w").write(ct)
    cfg = open(f"{d}/harness/.cargo/config.toml").read().replace("/verif/.build/target", f"{d}/target")
    open(f"{d}/harness/.cargo/config.toml", "w").write(cfg)
    os.makedirs(f"{d}/out/evidence", exist_ok=True)
    os.makedirs(f"{d}/out/replays", exist_ok=True)
    shutil.copy(f"{VERIF}/known_findings.json", f"{d}/out/known_findings.json")
    if os.path.isdir(f"{VERIF}/regress"):
        shutil.copytree(f"{VERIF}/regress", f"{d}/out/regress")
    return d


TARGET_ONLY = False
RESULT_NAME = "result.json"


def evaluate(name, lane_dir, ids, tier, with_c07):
    if TARGET_ONLY:
        ids = [name.split("-")[0]]
    seed_dir = os.path.join(VERIF, "seeded", name)
    repo = f"{lane_dir}/repo"
    sh("git init -q . 2>/dev/null; true", cwd=repo)
    # reset the scratch repo to pristine HEAD content
    sh(f"rm -rf {repo} && mkdir -p {repo} && git -C /repo archive HEAD | tar -x -C {repo}")
    rc, out = sh(f"patch -p1 --no-backup-if-mismatch < '{seed_dir}/patch.diff'", cwd=repo)
    res = {"name": name, "tier": tier, "checks": {}}
    if rc != 0:
        res["error"] = "patch does not apply: " + out[-300:]
        return res
    env = dict(os.environ)
    env.update({"VERIF_EVAL_DIR": f"{lane_dir}/out", "CARGO_NET_OFFLINE": "true", "VERIF_SEED": env.get("VERIF_SEED", "0")})
    bins = "--bin verif --bin cttrace" if (with_c07 or name.startswith("C07")) else "--bin verif"
    env.setdefault("VERIF_THREADS", "6")
    rc, out = sh(f"cargo build --release --offline --quiet {bins} 2>&1 | tail -20", cwd=f"{lane_dir}/harness", env=env, timeout=1800)
    if not os.path.exists(f"{lane_dir}/target/release/verif") or any(l.startswith("error") for l in out.splitlines()):
        res["error"] = "harness does not build against the changed tree: " + out[-600:]
        return res
    for pid in ids:
        if pid == "C07" and not (with_c07 or name.startswith("C07")):
            continue
        binary = "cttrace" if pid == "C07" else "verif"
        for f in os.listdir(f"{lane_dir}/out/replays"):
            os.remove(f"{lane_dir}/out/replays/{f}")
        t0 = time.time()
        try:
            rc, out = sh(f"{lane_dir}/target/release/{binary} {pid} --tier {tier}", cwd=f"{lane_dir}/harness", env=env, timeout=3600)
        except subprocess.TimeoutExpired:
            rc, out = 2, "timeout"
        reason = [l.strip() for l in out.splitlines() if l.strip().startswith("check=")]
        res["checks"][pid] = {"exit": rc, "first": reason[0][:400] if reason else "", "wall_s": round(time.time() - t0, 1)}
    res["detected_by"] = sorted(k for k, v in res["checks"].items() if v["exit"] == 1)
    res["inconclusive"] = sorted(k for k, v in res["checks"].items() if v["exit"] not in (0, 1))
    json.dump(res, open(os.path.join(seed_dir, RESULT_NAME), "w"), indent=1)
    return res


def main():
    args = sys.argv[1:]
    only, ids, lanes, tier, with_c07 = None, None, 4, "quick", False
    i = 0
    while i < len(args):
        if args[i] == "--only":
            i += 1
            only = args[i].split(",")
        elif args[i] == "--ids":
            i += 1
            ids = args[i].split(",")
        elif args[i] == "--lanes":
            i += 1
            lanes = int(args[i])
        elif args[i] == "--tier":
            i += 1
            tier = args[i]
        elif args[i] == "--with-c07":
            with_c07 = True
        elif args[i] == "--target-only":
            # only the check of the property the change was written for; results go to a separate file
            global TARGET_ONLY, RESULT_NAME
            TARGET_ONLY = True
            RESULT_NAME = "result-target-only-seed%s.json" % os.environ.get("VERIF_SEED", "0")
        i += 1
    man = json.load(open(os.path.join(VERIF, "MANIFEST.json")))
    if ids is None:
        ids = [c["property_id"] for c in man["checks"]]
    names = sorted(n for n in os.listdir(os.path.join(VERIF, "seeded")) if os.path.exists(os.path.join(VERIF, "seeded", n, "patch.diff")))
    if only:
        names = [n for n in names if n in only]
    lanes = max(1, min(lanes, len(names)))
    lane_dirs = [prepare_lane(l) for l in range(lanes)]
    buckets = [names[l::lanes] for l in range(lanes)]

    def run_lane(l):
        out = []
        for n in buckets[l]:
            r = evaluate(n, lane_dirs[l], ids, tier, with_c07)
            target = n.split("-")[0]
            print(f"{n}: detected_by={r.get('detected_by')} target_detected={target in r.get('detected_by', [])} inconclusive={r.get('inconclusive')} {r.get('error','')}", flush=True)
            out.append(r)
        return out

    with ThreadPoolExecutor(max_workers=lanes) as ex:
        list(ex.map(run_lane, range(lanes)))
    shutil.rmtree(SCRATCH, ignore_errors=True)


if __name__ == "__main__":
    main()
