#!/usr/bin/env python3
"""(Re)writes /verif/seeded/*/meta.json for the second round of seeded changes and refreshes detection fields for all."""
import json,os
needs={
"C01-3":("S3 mode: payload hash taken from the x-amz-content-sha256 header instead of hashing the body","s3 option on, that header present and the body then altered (or the literal UNSIGNED-PAYLOAD signed)"),
"C01-4":("seconds field clamped with .min(59)","a timestamp whose seconds are 60 or 61: a signature issued for hh:mm:59 validates a request restamped hh:mm:60"),
"C02-3":("timestamp header selection collapsed to Date.or_else(X-Amz-Date): Date wins","header carrier with both Date and X-Amz-Date headers whose values differ"),
"C02-4":("splitn(2,'=') replaced by split('=') + two next() calls","a query / form value containing a raw '=' (base64 padding, a=b=c)"),
"C03-3":("scope date parsed leniently with NaiveDate::parse_from_str and compared as a date","a scope date spelled with a one-digit day/month or with leading/inner blanks, signed over that string"),
"C03-4":("query-carried X-Amz-Credential is trim()med","presigned URL whose credential has a blank at either end (terminator 'aws4_request ' or ' AKID')"),
"C04-3":("zone offset parsed with the sign on the hour field (negative-zero slip)","offsets -00:01 .. -00:59"),
"C04-4":("upper bound check rewritten with a half-open range","request instant equal to now+15min to the nanosecond"),
"C05-3":("prefix match rewritten with name.len() > prefix.len()","a request header whose name EQUALS a declared prefix, left unsigned"),
"C05-4":("fast path: if every header the request carries is signed, return Ok before the always-required check","query carrier, all carried headers signed, an always-required header neither sent nor listed"),
"C06-3":("to_kdate formats with %G (ISO week year)","dates around New Year where the ISO week-year differs"),
"C06-4":("from_str trims trailing CR/LF from the secret","a secret ending in \\r or \\n"),
"C07-1":("reject branch adds a debug diagnostic comparing the lower-cased presented signature with the expected one using ==","every rejection: early-exit memcmp against the secret"),
"C07-2":("ct_eq on the slices replaced by zip().all(|(a,b)| a.ct_eq(b))","Iterator::all stops at the first mismatching byte (no memcmp involved)"),
"C08-3":("unescape_uri_encoding decodes with from_utf8_lossy; the ISO regex's \\d then matches non-ASCII digits and from_str().unwrap() panics","query carrier, all four X-Amz parameters, X-Amz-Date year written with percent-encoded non-ASCII decimal digits"),
"C08-4":("provider invoked with call() instead of oneshot()","a provider that panics when call precedes poll_ready (tower FutureService)"),
"C09-3":("escape digits sliced from the &str","a malformed escape whose two-byte window ends inside a multi-byte character: panic"),
"C09-4":("slash-run collapsing moved after the component loop","standard mode, '..' directly after an empty segment (/a//../b)"),
"C10-3":("escape digits parsed with u8::from_str_radix (accepts '+')","the escapes %+0..%+F in a query"),
"C10-4":("signature parameter excluded case-insensitively","a parameter named x-amz-signature / X-AMZ-SIGNATURE"),
"C11-3":("canonical header LINES are sorted instead of relying on the sorted name list","two signed headers, one name a strict prefix of the other followed by a byte below ':'"),
"C11-4":("a Host value ending in :443 / :80 has the port stripped","signed Host with an explicit default port"),
"C12-3":("decoded form body gets trim_end_matches(CR|LF)","folding on, raw form body ending in an unescaped CR/LF"),
"C12-4":("folding skipped when the s3 option is also set","SignatureOptions { s3: true, url_encode_form: true }"),
"C13-3":("an EMPTY X-Amz-Algorithm value counts as absent in the carrier check","Authorization header plus ?X-Amz-Algorithm= (empty / bare)"),
"C13-4":("'continue' on an empty parameter element became 'break'","an empty list element (',,') followed by a malformed element or a needed parameter"),
"C14-3":("oneshot split into ready().map_err(InternalServiceError) + call","a provider whose poll_ready fails with a SignatureError (comes back as 500)"),
"C14-4":("after a mismatch on a request with a session token the provider is asked again","token-bearing request with a wrong signature and a call-counting / stateful provider"),
"C15-3":("brace slip: the URI is rebuilt for ANY request with a Content-Type when folding is on","folding on, non-form Content-Type, URI not already canonical: returned URI differs"),
"C15-4":("Content-Length rewritten to 0 after folding","folded form with an unsigned Content-Length header"),
"C16-3":("23:59:60 mapped to chrono's leap-second form","the exact time 23:59:60"),
"C16-4":("fraction parsed as u64 and scaled","a fraction of >= 20 digits exceeding 2^64-1"),
"C17-3":("debug! 'stale key' hint copies the expected signature","signature mismatch while request and server dates differ (straddling midnight UTC)"),
"C17-4":("trace_only() helper + debug! line: expected signature shown when trace is enabled","mismatch with a logger whose max level is Trace: the DEBUG record carries the valid signature"),
"C18-3":("timestamp header chosen by iterating the header HashMap","both Date and X-Amz-Date with different values, validated more than once"),
"C18-4":("string-to-sign kept in a thread_local buffer across the provider await","two validations in flight on one thread with a provider future that really suspends"),
"C19-3":("first header STARTING WITH AWS4-HMAC-SHA256 is authenticated","first Authorization header of a foreign scheme, a later valid AWS4 one"),
"C19-4":("Authorization parameters with an empty value are skipped","a repeated parameter whose LAST occurrence is empty"),
}
for name in sorted(os.listdir('/verif/seeded')):
    d='/verif/seeded/'+name
    mp=d+'/meta.json'
    r=json.load(open(d+'/result.json')) if os.path.exists(d+'/result.json') else {}
    if name in needs:
        what,need=needs[name]
        meta={"property":name.split('-')[0],"source":"independent sub-agent given only the property text and a scratch worktree of /repo (second round: asked for changes as hard to find as possible)","change":what,"needs_to_manifest":need,
          "confirmed":"tools/seedvalidate.sh: applies cleanly, `cargo test --workspace --lib --no-fail-fast --offline` = 72 passed with the change, demo.rs fails with the change and passes without it (scratch worktree, removed afterwards)",
          "evaluated_with":"tools/seedmatrix.py (quick tier of every check, scratch copy of /repo with the patch applied, VERIF_SEED=0)"}
    elif os.path.exists(mp):
        meta=json.load(open(mp))
    else:
        continue
    t=name.split('-')[0]
    if r.get("checks") and len(r["checks"])>=15 or name.startswith("C07"):
        meta["detected_by_quick"]=r.get("detected_by",[])
    elif r.get("detected_by") is not None:
        meta["detected_by_quick"]=sorted(set(meta.get("detected_by_quick",[]))|set(r.get("detected_by",[])))
    meta["target_check_detects"]=t in meta.get("detected_by_quick",[])
    meta["first_report"]=(r.get("checks",{}).get(t,{}) or {}).get("first","")[:300] or meta.get("first_report","")
    json.dump(meta,open(mp,'w'),indent=1)
print("ok")
