#!/usr/bin/env python3
"""Builds meta.json for round-7 seeded changes from the agents' NOTES7.md headings and refreshes detection fields."""
import json,os,re
V='/verif/seeded'
def clean(s): return re.sub(r'\s+',' ',s.replace('`','')).strip()
for name in sorted(os.listdir(V)):
    d=os.path.join(V,name)
    if not os.path.isdir(d): continue
    k=name.split('-')[1]
    mp=os.path.join(d,'meta.json')
    r=json.load(open(d+'/result.json')) if os.path.exists(d+'/result.json') else {}
    if k in ('13','14'):
        notes=open(os.path.join(d,'agent-notes.md')).read()
        # section of this mutant
        m=list(re.finditer(r'^##+ Mutant (\d+)[^\n]*',notes,re.M))
        sec=''; head=''
        for i,mm in enumerate(m):
            if mm.group(1)==k:
                end=m[i+1].start() if i+1<len(m) else len(notes)
                sec=notes[mm.start():end]; head=mm.group(0)
                # multi-line headings
                nxt=notes[mm.end():mm.end()+300].split('\n')
                for l in nxt[1:3]:
                    if l.startswith('##'): head+=' '+l.lstrip('# ')
                break
        change=clean(re.sub(r'^##+ Mutant \d+\s*(--|—|-|:)?\s*','',head))
        change=re.sub(r'\(`?mutant\d+\.diff`?(, *`?demo\d+\.rs`?)?\)','',change)
        change=re.sub(r'`?mutant\d+\.diff`?(, *`?demo\d+\.rs`?)?','',change).strip(' -—:,()*')
        if len(change)<15 or change.lower() in ('change','what changed'):
            body=[l.strip(' *#') for l in sec.split('\n')[1:] if l.strip(' *#') and not l.strip().startswith('```')]
            body=[l for l in body if l.lower() not in ('change','what changed') and not l.lower().startswith(('site','file','sites'))]
            change=clean(' '.join(body[:2]))
        nm=re.search(r'(needed[^\n]*manifest[^\n]*|What is needed[^\n]*|Trigger[^\n]*)\n?((?:.|\n){0,700})',sec,re.I)
        need=clean((nm.group(0) if nm else '')[:520])
        need=re.sub(r'^(#+\s*)?(\*\*)?(What is needed( for it)? to manifest|Needed to manifest|What is needed)(\*\*)?[:.]?\s*(\(all of( it)?\))?:?','',need,flags=re.I).strip(' :*')
        OVERRIDE={
          "C04-13":"SigV4Authenticator remembers (OnceLock) that prevalidate succeeded once and answers Ok from then on, whatever server time it is asked about (src/auth.rs)",
          "C04-14":"normalize_header_value takes a fast path for values without a leading blank or a run of blanks and forgets the single trailing blank (src/canonical.rs)",
          "C13-13":"percent escapes decoded with u8::from_str_radix (accepts '%+F') instead of hex::decode (src/canonical.rs, normalize_uri_element)",
          "C13-14":"the 'path is not absolute' check moved into the non-S3 branch: in S3 mode '*' is accepted (src/canonical.rs, canonicalize_uri_path)",
        }
        if name in OVERRIDE: change=OVERRIDE[name]
        change=re.sub(r'\)? ?Chan(ge)?$','',change).strip()
        meta={"property":name.split('-')[0],"source":"independent sub-agent given only the property text and a scratch worktree of /repo (seventh round: same brief; the notes of the twelve changes already delivered for the property were in its output directory; the agent was told to think about what kind of test would find each earlier change and to invent something such tests would still miss)",
              "change":change[:400] or "(see agent-notes.md)","needs_to_manifest":need[:480] or "(see agent-notes.md)",
              "confirmed":"tools/seedvalidate.sh: applies cleanly, `cargo test --workspace --lib --no-fail-fast --offline` = 72 passed with the change, demo.rs fails with the change and passes without it (scratch worktree, removed afterwards)",
              "evaluated_with":"tools/seedmatrix.py (quick tier of every check, scratch copy of /repo with the patch applied, VERIF_SEED=0)"}
    elif os.path.exists(mp):
        meta=json.load(open(mp))
    else: continue
    t=name.split('-')[0]
    if r.get("checks") and (len(r["checks"])>=15 or name.startswith("C07")):
        meta["detected_by_quick"]=r.get("detected_by",[])
    elif r.get("detected_by") is not None:
        meta["detected_by_quick"]=sorted(set(meta.get("detected_by_quick",[]))|set(r.get("detected_by",[])))
    meta["target_check_detects"]=t in meta.get("detected_by_quick",[])
    meta["first_report"]=(r.get("checks",{}).get(t,{}) or {}).get("first","")[:300] or meta.get("first_report","")
    json.dump(meta,open(mp,'w'),indent=1)
print('ok')
