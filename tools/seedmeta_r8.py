#!/usr/bin/env python3
"""meta.json for the round-8 seeded changes (mutant 15; one change per agent, short brief) and refresh of
their detection fields from result.json. Descriptions are taken from the agents' NOTES8.md (agent-notes.md)."""
import json, os
V = '/verif/seeded'
SRC = ("independent sub-agent given only the property text and a scratch worktree of /repo (eighth round: one change per "
       "agent, twelve-minute brief, nothing from /verif and no notes of earlier changes; brief: tools/seedprompt_r8.txt)")
R8 = {
 "C02-15": ("normalize_uri_element classifies decoded %XX escapes with an inline byte-range match that leaves out '~' (src/canonical.rs)",
            "a correctly signed request that spells tilde as %7E / %7e in the path or the query; literal '~' and every other escaped unreserved byte still verify"),
 "C05-15": ("VecSignedHeaderRequirements::add_prefix skips a prefix 'already covered' with the containment test reversed: a broad prefix added after a narrower one that extends it is dropped (src/canonical.rs)",
            "requirement set built by add_prefix(\"x-amz-meta-\") then add_prefix(\"x-amz\") (that order, that method), and a correctly signed request with an unsigned x-amz-* header outside the narrow prefix"),
 "C09-15": ("thread-local one-slot memo in canonicalize_uri_path of the last path that came out unchanged; the key leaves out the s3 flag (src/canonical.rs)",
            "an S3-mode call on a path with an empty, '.' or '..' literal segment immediately followed, on the same thread, by a standard-mode call on the same string"),
 "C10-15": ("normalize_query_string_element returns an element made only of unreserved characters and complete upper-case/digit %XX escapes unchanged, so escapes of unreserved bytes (%41, %7E, %30) are no longer decoded (src/canonical.rs)",
            "a whole name or value consisting of unreserved characters plus upper-case escapes, at least one of which encodes an unreserved byte; a lower-case hex digit, '+', raw reserved byte or bad escape in the same element takes the old path"),
 "C11-15": ("normalize_headers drops an empty or all-blank value when the header name already has an earlier value (src/canonical.rs)",
            "a signed header that is repeated with a non-first occurrence that is empty or blank ('x: a' + 'x: ' canonicalises to 'x:a' instead of 'x:a,')"),
 "C12-15": ("ASCII fast path in CanonicalRequest::from_request_parts: a pure-ASCII form body is folded without looking at the charset parameter (src/canonical.rs)",
            "form folding enabled, a form content type with an unknown or ASCII-incompatible charset label (utf-16, bogus) and an all-ASCII body: folded instead of refused with InvalidBodyEncoding"),
 "C13-15": ("get_auth_parameters_from_query_parameters refuses a query-carrier credential with a '/' but not exactly five parts at once (IncompleteSignature 400, rule-12 text) before the rules that precede it have run (src/canonical.rs, src/auth.rs)",
            "query carrier, a credential of 2-4 or 6+ slash-separated parts AND a defect of an earlier rule (missing parameter, unsigned host, bad date format, expired / not yet valid): the 400 replaces that rule's answer"),
 "C16-15": ("seconds field 60 accepted when the UTC instant (after the offset) is 23:59 on 30 June or 31 December ('leap second leniency', src/chronoutil.rs)",
            "a timestamp such as 20161231T235960Z or 2017-01-01T05:29:60+05:30; second 60 at any other instant and second 61 are still refused"),
 "C17-15": ("validate_signature gets a fast path for presented signatures whose length is not 64 that logs the expected signature at DEBUG before returning the usual mismatch error (src/auth.rs)",
            "a request passing every earlier rule whose Signature= value is truncated or over-long, and a logger at DEBUG"),
 "C19-15": ("a request with both an Authorization header and X-Amz-Algorithm in the query is refused only if its FIRST Authorization header starts with AWS4-HMAC-SHA256 (src/canonical.rs, get_auth_parameters)",
            "presigned query plus an Authorization header whose first value is something else (Basic ...), optionally a second, SigV4 Authorization header naming another identity"),
}
try:
    R8.update(json.load(open('/verif/tools/seedmeta_r8_extra.json')))
except FileNotFoundError:
    pass
for name, (change, need) in sorted(R8.items()):
    d = os.path.join(V, name)
    if not os.path.isdir(d):
        continue
    rp = d + '/result-target-only-seed0.json'
    r = json.load(open(rp)) if os.path.exists(rp) else {}
    first = json.load(open(d + '/result-first-pass.json')) if os.path.exists(d + '/result-first-pass.json') else None
    t = name.split('-')[0]
    meta = {"property": t, "source": SRC, "change": change, "needs_to_manifest": need,
            "confirmed": "tools/seedvalidate.sh: applies cleanly, `cargo test --workspace --lib --no-fail-fast --offline` = 72 passed with the change, demo.rs fails with the change and passes without it (scratch worktree, removed afterwards)",
            "evaluated_with": "tools/seedmatrix.py --target-only (quick tier of the property's own check, scratch copy of /repo with the patch applied, VERIF_SEED=0)",
            "detected_by_quick": r.get("detected_by", []),
            "target_check_detects": t in r.get("detected_by", []),
            "first_report": (r.get("checks", {}).get(t, {}) or {}).get("first", "")[:300]}
    if first is not None:
        meta["first_pass_target_check_detected"] = t in first.get("detected_by", [])
    json.dump(meta, open(d + '/meta.json', 'w'), indent=1)
print('ok')
