#!/bin/bash
# tools/seedvalidate.sh <ID> <k>   -- confirm a sub-agent's mutant in a scratch worktree of /repo:
#   compiles + 72 baseline tests pass with it; its demonstration fails with it and passes without it.
# On success copies it to /verif/seeded/<ID>-<k>/ (patch.diff, demo.rs, meta.json skeleton).
ID=$1; K=$2
SRC=/tmp/mut/$ID-out
NOTES=$SRC/NOTES.md; [ "$K" -ge 3 ] && NOTES=$SRC/NOTES2.md; [ "$K" -ge 5 ] && NOTES=$SRC/NOTES3.md; [ "$K" -ge 7 ] && NOTES=$SRC/NOTES4.md; [ "$K" -ge 9 ] && NOTES=$SRC/NOTES5.md; [ "$K" -ge 11 ] && NOTES=$SRC/NOTES6.md; [ "$K" -ge 13 ] && NOTES=$SRC/NOTES7.md; [ "$K" -ge 15 ] && NOTES=$SRC/NOTES8.md
WT=/tmp/mut/validate-$ID-$K
export CARGO_NET_OFFLINE=true CARGO_TARGET_DIR=${VALIDATE_TARGET:-/tmp/mut/validate-target}
[ -f "$SRC/mutant$K.diff" ] && [ -f "$SRC/demo$K.rs" ] || { echo "missing deliverables for $ID $K"; exit 2; }
git -C /repo worktree add -q --detach "$WT" HEAD || exit 2
cleanup() { git -C /repo worktree remove --force "$WT" 2>/dev/null; }
trap cleanup EXIT
cd "$WT" || exit 2
mkdir -p tests && cp "$SRC/demo$K.rs" tests/seeddemo.rs
FEAT=""; grep -q 'feature = "unstable"' tests/seeddemo.rs && FEAT="--features unstable"
grep -q "unstable" "$NOTES" 2>/dev/null && FEAT="--features unstable"
# demo on the original code: must pass
if ! cargo test --offline $FEAT --test seeddemo >/tmp/mut/validate-$ID-$K.orig.log 2>&1; then echo "FAIL: demo does not pass on the original code"; tail -15 /tmp/mut/validate-$ID-$K.orig.log; exit 1; fi
if ! git apply --whitespace=nowarn "$SRC/mutant$K.diff"; then echo "FAIL: patch does not apply"; exit 1; fi
BASE=$(cargo test --workspace --lib --no-fail-fast --offline 2>&1 | grep -E "^test result" | head -1)
case "$BASE" in *"72 passed; 0 failed"*) ;; *) echo "FAIL: baseline with mutant: $BASE"; exit 1;; esac
if cargo test --offline $FEAT --test seeddemo >/tmp/mut/validate-$ID-$K.mut.log 2>&1; then echo "FAIL: demo passes with the mutant applied"; exit 1; fi
grep -qE "test result: FAILED|panicked" /tmp/mut/validate-$ID-$K.mut.log || { echo "FAIL: demo did not run to a test failure (compile error?)"; tail -15 /tmp/mut/validate-$ID-$K.mut.log; exit 1; }
DEST=/verif/seeded/$ID-$K
mkdir -p "$DEST" && cp "$SRC/mutant$K.diff" "$DEST/patch.diff" && cp "$SRC/demo$K.rs" "$DEST/demo.rs" && cp "$NOTES" "$DEST/agent-notes.md"
echo "OK: $ID-$K confirmed (baseline: $BASE; demo fails with mutant, passes without) features='$FEAT'"
