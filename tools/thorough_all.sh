#!/bin/bash
# tools/thorough_all.sh -- runs the thorough tier of every registered check once, keeps each evidence file under
# evidence-thorough/ and prints one summary line per property (wall time, cases, distinct non-trivial, exit code).
cd "$(dirname "$0")/.." || exit 2
mkdir -p evidence-thorough .build
: > evidence-thorough/SUMMARY.txt
for id in $(python3 -c "import json;print(' '.join(c['property_id'] for c in json.load(open('MANIFEST.json'))['checks']))"); do
  t0=$(date +%s)
  ./check "$id" --tier thorough > .build/thorough-$id.log 2>&1
  rc=$?
  t1=$(date +%s)
  cp evidence/$id.json evidence-thorough/$id.json 2>/dev/null
  line=$(grep -E "^$id thorough:" .build/thorough-$id.log | tail -1)
  echo "$id exit=$rc wall=$((t1-t0))s $line" | tee -a evidence-thorough/SUMMARY.txt
  grep -E "^(VIOLATION|KNOWN-FINDING|INCONCLUSIVE)" .build/thorough-$id.log | cut -c1-200 | sort -u | head -5 >> evidence-thorough/SUMMARY.txt
done
